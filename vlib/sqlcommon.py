"""database/sql through the updog driver (harness/sql.go) vs the model's sql_query /
prepared_query / rows_of (Adapters.v): shared by C11 and C12."""
import random
from . import core, dp, text

OPTS = ["-", "preload=true", "lrucache=true&lrucachesize=100000", "preload=true&lrucache=true&lrucachesize=0",
        "lrucache=true&lrucachesize=abc", "lrucache=true", "preload=false"]
ARG_POOL = [("S", b"x,y"), ("S", b"y,z"), ("S", b"z"), ("I", -1), ("S", b"1"), ("S", b"2"), ("S", b"x"), ("S", b""), ("S", b'q"uote'), ("S", b"new\nline"), ("S", b"\xc3\xa9"), ("I", 1), ("I", 2), ("I", 0), ("I", -3), ("I", 9007199254740993), ("I", -9007199254740993), ("S", b"zz-absent")]


SHAPES = [b'a = "1" | (b = "x" & c = "q")', b'a = "1" & (b = "x" | c = "q")', b'^ (a = "1" | b = "y")', b'a = "2" | (b = "y" | c = "p")',
          b'(a = "1" & b = "x") & c = "p"', b'^ (a = "1" & (b = "x" | c = "q"))', b'(a = "1" | b = "z") & (c = "p" | a = "-3") ; b', b'a = "x" | (b = "z" & (c = "p" | a = "2"))']


def enc_args(args):
    def one(a):
        if a[0] in ("S", "NS", "PS"):
            return " %s %s" % (a[0], core.enc_str(a[1]))
        if a[0] in ("I", "NI"):
            return " %s %d" % (a[0], a[1])
        return " " + a[0]
    return "ARGS %d%s" % (len(args), "".join(one(a) for a in args))


def query_text(rng, ds, nph_max=3):
    """A grammatical query text over the dataset's columns with literals and placeholders."""
    vals = ds.values()
    cols = [c for c in sorted(vals) if c.isalpha()] or [b"a"]

    def leaf():
        c = rng.choice(cols)
        if rng.random() < 0.45:
            return ("E", c, b"", rng.randrange(1, nph_max + 1))
        vs = sorted(vals.get(c, [b"1"]))
        return ("E", c, rng.choice(vs + [b"zz-absent"]), 0)

    def tree(d):
        if d <= 0 or rng.random() < 0.35:
            return leaf()
        k = rng.random()
        if k < 0.2:
            return ("N", tree(d - 1))
        return ("A" if k < 0.6 else "O", [tree(d - 1) for _ in range(rng.randrange(2, 4))])
    t = tree(rng.choice([0, 1, 1, 2, 3]))
    toks = text.tokens_of(rng, t)
    gb = []
    if rng.random() < 0.5:
        gb = [rng.choice(cols + ([b"nosuchcol"] if rng.random() < 0.1 else [])) for _ in range(rng.randrange(1, 4))]
        toks = toks + [b";"]
        for i, c in enumerate(gb):
            if i:
                toks.append(b",")
            toks.append(c)
    return text.spell(rng, toks), t, gb


def max_ph(t):
    if t[0] == "E":
        return t[3]
    if t[0] == "N":
        return max_ph(t[1])
    return max([max_ph(x) for x in t[1]] or [0])


def gen(rng, tier, focus):
    lines, stmts = [], []
    nds = 5 if tier == "quick" else 200
    nq = 40 if tier == "quick" else 120
    for i in range(nds):
        ds = dp.small_dataset(rng, "q%d" % i, hostile=True)
        ds.rows = [{c: v for c, v in r.items() if c.isalpha()} for r in ds.rows]
        if i == 0:
            ds = dp.Dataset("q0", [{b"a": b"1", b"b": b"x", b"c": b"p"}, {b"a": b"2", b"b": b"x", b"c": b"q"}, {b"a": b"1", b"b": b"y"}, {},
                                   {b"a": b"-3", b"b": b"x", b"c": b"p"}, {b"a": b"-3", b"b": b"y,z", b"c": b"q"}, {b"a": b"x,y", b"b": b"z", b"c": b"p"},
                                   {b"a": b"x", b"b": b"y,z", b"c": b"q"}, {b"a": b"0", b"b": b"-1"}], "fixed")
        lines += ds.lines()
        optset = OPTS if focus == "rows" else OPTS[:3]
        for oi, opts in enumerate(optset):
            h = "%s_o%d" % (ds.did, oi)
            lines.append("SQLOPEN %s %s %s" % (h, ds.did, opts))
            for qn in range(max(8 + len(SHAPES) if i == 0 else 6, nq // len(optset))):
                txt, t, gb = query_text(rng, ds)
                if i == 0 and qn == 0:
                    txt, t, gb = b'a = "zzz" ; c, b', ("E", b"a", b"zzz", 0), [b"c", b"b"]       # grouped, no matching group
                if i == 0 and qn == 1:
                    txt, t, gb = b"a = $1 & b = $2", ("A", [("E", b"a", b"", 1), ("E", b"b", b"", 2)]), []
                m = max_ph(t)
                mode = rng.choice(["direct", "prepared", "direct", "prepared", "tx"])
                k = rng.randrange(1, 6) if mode == "prepared" else rng.randrange(1, 3)
                argsets = []
                for _ in range(k):
                    r = rng.random()
                    n = m if r < 0.6 else (rng.randrange(0, m) if m and r < 0.8 else m + rng.randrange(1, 3))
                    argsets.append([rng.choice(ARG_POOL) for _ in range(n)])
                if i == 0 and qn == 1:
                    mode, argsets = "direct", [[("S", b"1")]]
                if qn == 4:                 # the same plain texts on every file and every option set
                    c0 = sorted(c for c in ds.values() if c.isalpha())[:1] or [b"a"]
                    txt, t, gb, m = c0[0] + b' = "1" | ' + c0[0] + b' = "x"', ("O", [("E", c0[0], b"1", 0), ("E", c0[0], b"x", 0)]), [], 0
                    mode, argsets = "direct", [[], []]
                if qn == 5:                 # a placeholder under NOT, prepared, executed with different arguments
                    c0 = sorted(c for c in ds.values() if c.isalpha())[:2] or [b"a"]
                    c1 = c0[-1]
                    txt = b"^ " + c0[0] + b" = $1 & " + c1 + b" = $2 ; " + c0[0]
                    t, gb, m = ("A", [("N", ("E", c0[0], b"", 1)), ("E", c1, b"", 2)]), [c0[0]], 2
                    vals = sorted(set(v for c in c0 for v in ds.values().get(c, []) if all(x < 128 for x in v)))[:4] or [b"1"]
                    mode = "prepared"
                    argsets = [[("S", rng.choice(vals)), ("S", rng.choice(vals))] for _ in range(4)]
                if i == 0 and qn in (2, 6, 7):      # negative integers, on every path
                    txt, t, gb, m = b"a = $1 ; b", ("E", b"a", b"", 1), [b"b"], 1
                    mode = {2: "prepared", 6: "direct", 7: "tx"}[qn]
                    argsets = [[("I", -3)], [("I", 0)], [("I", -3)]]
                if i == 0 and 8 <= qn < 8 + len(SHAPES):   # nesting shapes the conversion layer must keep apart
                    txt, gb, m = SHAPES[qn - 8], [], 0
                    t = ("E", b"a", b"1", 0)
                    mode, argsets = ("direct" if qn % 2 else "prepared"), [[]]
                if i == 0 and qn == 3:      # argument lists that differ only in where a comma sits
                    txt, t, gb, m = b"a = $1 & b = $2 ; c", ("A", [("E", b"a", b"", 1), ("E", b"b", b"", 2)]), [b"c"], 2
                    mode, argsets = "prepared", [[("S", b"x,y"), ("S", b"z")], [("S", b"x"), ("S", b"y,z")], [("S", b"x,y"), ("S", b"z")]]
                qid = "%s.s%d" % (h, qn)
                lines.append("SQLQ %s %s %s %s %d" % (qid, h, mode, core.enc_str(txt), len(argsets)))
                for a in argsets:
                    lines.append(enc_args(a))
                stmts.append((qid, ds, opts, mode, txt, argsets, m))
            lines.append("SQLCLOSE " + h)
    # a data column that is itself called count (and one called text), grouped by, in every
    # position: names, types and values of the result columns are positional
    ds = dp.Dataset("qc", [{b"count": b"7", b"a": b"1", b"text": b"t"}, {b"count": b"7", b"a": b"2"}, {b"count": b"9", b"a": b"1", b"text": b"u"},
                           {b"count": b"", b"a": b"1"}, {b"a": b"2", b"text": b"t"}, {b"count": b"count", b"a": b"1", b"bigint": b"5"},
                           {b"text": b'"x"', b"a": b"3"}, {b"text": b'say "hi"', b"a": b"3"}, {b"text": b'""', b"a": b"3"}, {b"text": b'"', b"a": b"3"},
                           {b"text": b"x", b"a": b"3"}, {b"text": b"", b"a": b"3"}, {b"text": b'a""b', b"a": b"3"}, {b"text": b"a\"b", b"a": b"4"},
                           # group values that are prefixes of one another, continued by bytes below and above a comma
                           {b"a": b"5", b"p": b"ab"}, {b"a": b"5", b"p": b"ab c"}, {b"a": b"5", b"p": b"ab!x"}, {b"a": b"5", b"p": b"ab,z"},
                           {b"a": b"5", b"p": b"ab-"}, {b"a": b"5", b"p": b"ab", b"text": b"t"}, {b"a": b"5", b"p": b"", b"text": b"u"}], "count-column")
    lines += ds.lines()
    fixed = [(b'a = "1" ; count', ("E", b"a", b"1", 0), [b"count"]), (b'a = "1" ; count, a', ("E", b"a", b"1", 0), [b"count", b"a"]),
             (b'a = "1" ; a, count', ("E", b"a", b"1", 0), [b"a", b"count"]), (b'count = "7" ; count, count', ("E", b"count", b"7", 0), [b"count", b"count"]),
             (b'count = "7" ; text, count, a', ("E", b"count", b"7", 0), [b"text", b"count", b"a"]), (b'count = "nope" ; count', ("E", b"count", b"nope", 0), [b"count"]),
             (b'count = "count"', ("E", b"count", b"count", 0), []), (b'count = $1 ; bigint, count', ("E", b"count", b"", 1), [b"bigint", b"count"]),
             (b'a = "5" ; p, a', ("E", b"a", b"5", 0), [b"p", b"a"]), (b'a = "5" ; p, p, a', ("E", b"a", b"5", 0), [b"p", b"p", b"a"]),
             (b'^ a = "1" ; a, p', ("N", ("E", b"a", b"1", 0)), [b"a", b"p"]),
             (b'text = $1 ; a, text', ("E", b"text", b"", 1), [b"a", b"text"]), (b'text = $1 | a = "4" ; text', ("O", [("E", b"text", b"", 1), ("E", b"a", b"4", 0)]), [b"text"])]
    for oi, opts in enumerate(OPTS[:2]):
        h = "qc_o%d" % oi
        lines.append("SQLOPEN %s qc %s" % (h, opts))
        for qn, (txt, t, gb) in enumerate(fixed):
            m = max_ph(t)
            mode = ["direct", "prepared", "tx"][(qn + oi) % 3]
            argsets = [[("S", b"count")]] if m else [[]]
            if txt.startswith(b"text = $1"):
                # arguments that begin / end with a quote or contain a doubled one: bound verbatim
                argsets = [[("S", v)] for v in (b'"x"', b'say "hi"', b'""', b'"', b"x", b"", b'a""b', b'a"b', b'"x"')]
            qid = "%s.s%d" % (h, qn)
            lines.append("SQLQ %s %s %s %s %d" % (qid, h, mode, core.enc_str(txt), len(argsets)))
            for a in argsets:
                lines.append(enc_args(a))
            stmts.append((qid, ds, opts, mode, txt, argsets, m))
        # placeholder numbers beyond int32 (a parse error, never another argument), and placeholders
        # below 70 / 200 nested operators (counted and bound like any other)
        deep = lambda d: b"a = $1 & " + b"^ " * d + b"text = $2"
        deepp = lambda d: b"(" * d + b"text = $2" + b" | a = $1)" * d
        for pn, (mode, txt, m, args) in enumerate([("direct", b"a = $4294967297", 1, [("S", b"1")]), ("prepared", b"a = $4294967298 | a = $1", 2, [("S", b"1"), ("S", b"2")]),
                                                   ("direct", b"a = $2147483649", 1, [("S", b"1")]), ("direct", b"a = $2147483648 | a = $1", 1, [("S", b"1")]),
                                                   ("direct", deep(70), 2, [("S", b"3"), ("S", b"x")]), ("prepared", deep(70), 2, [("S", b"3"), ("S", b"x")]),
                                                   ("prepared", deep(201), 2, [("S", b"3"), ("S", b"x")]), ("direct", deepp(70), 2, [("S", b"3"), ("S", b"x")]),
                                                   ("direct", deep(70), 2, [("S", b"3")]), ("tx", deepp(130), 2, [("S", b"1"), ("S", b"t")])]):
            qid = "%s.b%d" % (h, pn)
            lines.append("SQLQ %s %s %s %s 1" % (qid, h, mode, core.enc_str(txt)))
            lines.append(enc_args(args))
            stmts.append((qid, ds, opts, mode, txt, [args], m))
        # texts the grammar rejects although a lenient front end might "clean them up"
        for pn, (mode, txt) in enumerate([("direct", b'a = "1" ;'), ("prepared", b'a = "1";'), ("direct", b'a = "1" ; count ;'), ("tx", b' a = "1" ; '), ("prepared", b'a = "1" ;;'),
                                          ("direct", b';a = "1"'), ("direct", b'a = "1"\x0b'), ("direct", b'\xc2\xa0a = "1"'), ("prepared", b'a = "1" -- x'), ("direct", b'a = "1" ; count,')]):
            qid = "%s.g%d" % (h, pn)
            lines.append("SQLQ %s %s %s %s 1" % (qid, h, mode, core.enc_str(txt)))
            lines.append(enc_args([]))
            stmts.append((qid, ds, opts, mode, txt, [[]], 0))
        # argument types database/sql converts before the driver sees them (valid NullString /
        # NullInt64, *string, bool), on every path
        for pn, (mode, txt, m, args) in enumerate([("prepared", b"text = $1 ; a", 1, [("NS", b"t")]), ("direct", b"text = $1 ; a", 1, [("NS", b"t")]), ("tx", b"text = $1 ; a", 1, [("PS", b"u")]),
                                                   ("prepared", b"text = $1 | a = $2", 2, [("PS", b"t"), ("NI", 2)]), ("direct", b"a = $1", 1, [("NI", 1)]), ("prepared", b"a = $1", 1, [("NI", 1)]),
                                                   ("prepared", b"text = $1", 1, [("BT",)]), ("direct", b"text = $1", 1, [("BF",)]), ("prepared", b"count = $1 ; count", 1, [("NS", b"7")])]):
            qid = "%s.v%d" % (h, pn)
            lines.append("SQLQ %s %s %s %s 1" % (qid, h, mode, core.enc_str(txt)))
            lines.append(enc_args(args))
            stmts.append((qid, ds, opts, mode, txt, [args], m))
        # placeholders with no argument at all / too few, on every path
        for pn, (mode, txt, m, args) in enumerate([("direct", b"text = $1", 1, []), ("prepared", b"text = $1", 1, []), ("tx", b"text = $1 | a = $2", 2, []),
                                                   ("direct", b"text = $1 | a = $2", 2, [("S", b"x")]), ("direct", b"text = $2", 2, [("S", b"x")])]):
            qid = "%s.p%d" % (h, pn)
            lines.append("SQLQ %s %s %s %s 1" % (qid, h, mode, core.enc_str(txt)))
            lines.append(enc_args(args))
            stmts.append((qid, ds, opts, mode, txt, [args], m))
        lines.append("SQLCLOSE " + h)
    # data source names whose option strings exercise Open's parsing (Dsn.v): repeated keys
    # (the first value counts), keys without value, empty pairs, other spellings of true, cache
    # sizes at and beyond 2^64-1, signs, exponents, leading zeros
    hostile = ["preload=false&preload=true", "preload=true&preload=false", "&&preload=true&", "preload", "preload=TRUE",
               "lrucache=true&lrucachesize=18446744073709551615", "lrucache=true&lrucachesize=18446744073709551616",
               "lrucache=true&lrucachesize=007", "lrucache=true&lrucachesize=-5", "lrucache=true&lrucachesize=1e3", "lrucache=true&lrucachesize=",
               "x=1&lrucache=true&lrucachesize=12&lrucachesize=abc", "lrucachesize=5", "lrucache=TRUE&lrucachesize=abc",
               "lrucachesize=abc&lrucache=true&preload=true", "lrucache=true&lrucachesize=99999999999999999999", "lrucache=true&lrucachesize=0x10", "=true&preload=true",
               # percent-decoding (url.QueryUnescape), '+' as space, ';' pairs dropped, malformed escapes dropped
               "preload=%74rue", "pre%6Coad=true", "pre%6coad=tru%65", "preload=tr%75e&preload=false", "preload=%zzrue&preload=true",
               "preload=true%", "preload=true%2", "preload=tru%2&preload=true", "%70reload=true;x=1&lrucache=true&lrucachesize=5",
               "preload=true;", "preload=false;x&preload=true", "preload=true+", "preload=+true", "preload=t%2Brue",
               "lrucache=true&lrucachesize=%31%32", "lrucache=true&lrucachesize=1+2", "lrucache=true&lrucachesize=%2B5",
               "lrucache=%74%72%75%65&lrucachesize=1%30", "lrucache=true&lrucachesize=%3", "lrucache=true&lrucachesize=7%3B",
               "lrucache=true&lrucachesize=12%26preload=true", "preload%3Dtrue", "preload%3Dtrue=true", "lrucache=true&lrucachesize=%311&lrucachesize=%G1"]
    for oi, opts in enumerate(hostile):
        h = "qc_h%d" % oi
        lines.append("SQLOPEN %s qc %s" % (h, opts))
        for qn, (txt, t, gb) in enumerate(fixed[:2]):
            qid = "%s.s%d" % (h, qn)
            lines.append("SQLQ %s %s %s %s 1" % (qid, h, ["direct", "prepared"][(qn + oi) % 2], core.enc_str(txt)))
            lines.append(enc_args([]))
            stmts.append((qid, ds, opts, ["direct", "prepared"][(qn + oi) % 2], txt, [[]], 0))
        lines.append("SQLCLOSE " + h)
    return lines, stmts


def run_lines(scratch, lines, tag, timeout=1500, impl_side=True, model_side=True):
    path = scratch.path("sql-%s.txt" % tag)
    with open(path, "w") as fh:
        fh.write("\n".join(lines) + "\n")
    ilines, rc, err = core.run_impl(scratch, "sql", path, timeout=timeout) if impl_side else ([], 0, "")
    mlines = core.run_model("sql", path, timeout=timeout) if model_side else []
    impl, model = {}, {}
    for l in ilines:
        f = l.split(" ", 2)
        if len(f) >= 2:
            impl[(f[0], f[1])] = f[2] if len(f) > 2 else ""
    for l in mlines:
        f = l.split(" ", 2)
        if len(f) >= 2:
            model[(f[0], f[1])] = f[2] if len(f) > 2 else ""
    return impl, model, rc, err


def run_sql(rep, scratch, rng, tier, focus):
    lines, stmts = gen(rng, tier, focus)
    impl, model, rc, err = run_lines(scratch, lines, focus)
    if rc != 0:
        raise core.FrameworkError("sql harness exited with %d: %s" % (rc, err[:1500]))
    bad = []
    stats = {"statements": 0, "executions": 0, "errors_expected": 0, "grouped_no_rows": 0, "by_mode": {}, "by_opts": {}, "too_few_args": 0, "too_many_args": 0}
    for qid, ds, opts, mode, txt, argsets, m in stmts:
        stats["statements"] += 1
        stats["by_mode"][mode] = stats["by_mode"].get(mode, 0) + 1
        stats["by_opts"][opts] = stats["by_opts"].get(opts, 0) + 1
        for j, a in enumerate(argsets):
            stats["executions"] += 1
            stats["too_few_args"] += len(a) < m
            stats["too_many_args"] += len(a) > m
            x, y = impl.get(("SQL", "%s.%d" % (qid, j))), model.get(("SQL", "%s.%d" % (qid, j)))
            if y is None:
                raise core.FrameworkError("model produced nothing for %s.%d" % (qid, j))
            if y == "ERR":
                stats["errors_expected"] += 1
            if " N 0" in y and "ROWS" in y:
                stats["grouped_no_rows"] += 1
            if x != y and x != "DEAD":
                bad.append((qid, j, ds, opts, mode, txt, a, x, y))
    seen = set()
    for qid, j, ds, opts, mode, txt, a, x, y in bad:
        cls = ((x or "NONE").split()[0], y.split()[0], mode)
        if cls in seen:
            continue
        seen.add(cls)
        rep.violation("correspondence",
                      "database/sql %s path, DSN options %s: %s with %d argument(s), execution #%d -> implementation %s, model %s" % (
                          {"prepared": "Prepare+Stmt.Query", "tx": "Begin+Tx.Query+Commit"}.get(mode, "DB.Query"), opts, core.show_bytes(txt)[:120], len(a), j + 1, str(x)[:200], str(y)[:200]),
                      {"lines": ds.lines() + ["SQLOPEN h %s %s" % (ds.did, opts), "SQLQ q h %s %s 1" % (mode, core.enc_str(txt)), enc_args(a)],
                       "query_text": core.show_bytes(txt), "args": [str(v[1]) for v in a], "options": opts, "mode": mode, "impl": x, "model": y})
    stats["failures"] = len(bad)
    return stats, bad

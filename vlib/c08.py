"""C08 — executing a Query value does not change what it means: one *updog.Query executed
1..5 times on 1..3 indexes (different schemas, including one where a group-by column is
unknown), compared with fresh queries and with the model (Adapters.v execute_q / run_q)."""
import random
from . import core, dp

PID = "C08"
mods = []
holes = []


def gen(rng, tier):
    lines, cases = [], []
    mods.clear()
    holes.clear()
    n = 60 if tier == "quick" else 4000
    for i in range(n):
        # three datasets sharing some columns; the third may lack a group-by column
        base = "c%d" % i
        dss = []
        for j in range(3):
            ds = dp.small_dataset(rng, "%s_%d" % (base, j), hostile=False)
            if j == 2 and rng.random() < 0.5:
                ds.rows = [{c: v for c, v in r.items() if c != b"a"} for r in ds.rows]
            dss.append(ds)
            lines += ds.lines()
        vals = dss[0].values()
        cols = sorted(vals) or [b"a"]
        leaves = dp.leaves_for(rng, dss[0])
        for qn in range(4):
            e = dp.rand_expr(rng, leaves, rng.randrange(0, 4))
            gb = [rng.choice(cols) for _ in range(rng.choice([0, 1, 1, 2, 3, 4, 5]))]
            if rng.random() < 0.1:
                gb.append(b"nosuchcol")
            if rng.random() < 0.15 and gb:
                gb.insert(rng.randrange(len(gb)), b"")        # an empty column name, not last
            k = rng.randrange(1, 6)
            seq = [rng.choice(dss) for _ in range(k)]
            if rng.random() < 0.5:
                seq = [seq[0]] * k          # repeated executions on one index
            w, m = rng.choice(dp.WRITERS), rng.choice(dp.MODES)
            qid = "%s.v%d" % (base, qn)
            lines.append("QVAL %s %d %s %s %s %s GB %d%s" % (qid, k, " ".join(d.did for d in seq), w, m, dp.enc_expr(e), len(gb),
                                                            "".join(" " + core.enc_str(c) for c in gb)))
            # the fresh-query reference: one QUERY per execution
            for j, d in enumerate(seq):
                lines.append(dp.Query("%s.f%d" % (qid, j), d, w, m, e, gb, 0).line())
            cases.append((qid, seq, w, m, e, gb))
        # the caller changes the Query between executions: tree rewritten in place, group-by list
        # replaced, cleared (also on a value copy), restored
        for qn in range(2):
            e1 = dp.rand_expr(rng, leaves, rng.randrange(0, 4))
            e2 = dp.rand_expr(rng, leaves, rng.randrange(0, 4)) if rng.random() < 0.6 else e1
            gb1 = [rng.choice(cols) for _ in range(rng.choice([1, 1, 2, 3]))]
            gb2 = [] if rng.random() < 0.4 else [rng.choice(cols) for _ in range(rng.choice([1, 2]))]
            w, m = rng.choice(dp.WRITERS), rng.choice(dp.MODES)
            if qn == 1:
                # on a handle with an LRU cache, the second tree differing from the first below
                # an operator only (what a loop over values does to a reused query)
                m = "cached"
                e1 = ("A", [leaves[0], ("O", [leaves[1 % len(leaves)], leaves[2 % len(leaves)]])]) if leaves else e1
                e2 = ("A", [leaves[0], ("O", [leaves[1 % len(leaves)], leaves[-1]])]) if leaves else e2
            mid = "%s.m%d" % (base, qn)
            enc = lambda gb: "GB %d%s" % (len(gb), "".join(" " + core.enc_str(c) for c in gb))
            lines.append("QMOD %s %s %s %s %s %s THEN %s %s" % (mid, dss[0].did, w, m, dp.enc_expr(e1), enc(gb1), dp.enc_expr(e2), enc(gb2)))
            mods.append(mid)
        # executed while an operand is still missing, completed in place, executed again
        eh = dp.rand_expr(rng, leaves, rng.randrange(1, 4))
        hid = "%s.h0" % base
        gbh = [rng.choice(cols)] if rng.random() < 0.5 else []
        lines.append("QHOLE %s %s %s %s %s GB %d%s" % (hid, dss[0].did, rng.choice(dp.WRITERS), rng.choice(dp.MODES + ["cached"]), dp.enc_expr(eh), len(gbh), "".join(" " + core.enc_str(c) for c in gbh)))
        holes.append(hid)
        for d in dss:
            lines.append("DROP " + d.did)
    # directed: per-day style indexes whose group-by columns have the same NUMBER of distinct values
    # but other value sets, other columns with equal names, and an index lacking the column
    dA = dp.Dataset("dirA", [{b"status": b"ok", b"day": b"mon", b"n": b"1"}, {b"status": b"err", b"day": b"mon", b"n": b"2"}, {b"status": b"ok", b"day": b"tue", b"n": b"1"}], "same-counts")
    dB = dp.Dataset("dirB", [{b"status": b"fine", b"day": b"wed", b"n": b"1"}, {b"status": b"bad", b"day": b"thu", b"n": b"2"}, {b"status": b"bad", b"day": b"wed", b"n": b"1"}], "same-counts")
    dC = dp.Dataset("dirC", [{b"status": b"ok", b"n": b"1"}, {b"status": b"late", b"n": b"3"}, {b"n": b"3"}], "same-counts")
    for d in (dA, dB, dC):
        lines += d.lines()
    any_e = ("O", [dp.e_eq(b"n", b"1"), dp.e_eq(b"n", b"2"), dp.e_eq(b"n", b"3")])
    k = 0
    for gb in ([b"status"], [b"status", b"day"], [b"day", b"status"], [b"n", b"status"], [b"day"]):
        for seq in ([dA, dB], [dB, dA, dB], [dA, dC, dA], [dC, dB], [dA, dA, dB, dB]):
            for w, m in (("mem", "ondemand"), ("big", "preload")):
                qid = "dir.v%d" % k
                k += 1
                lines.append("QVAL %s %d %s %s %s %s GB %d%s" % (qid, len(seq), " ".join(d.did for d in seq), w, m, dp.enc_expr(any_e), len(gb), "".join(" " + core.enc_str(c) for c in gb)))
                for j, d in enumerate(seq):
                    lines.append(dp.Query("%s.f%d" % (qid, j), d, w, m, any_e, gb, 0).line())
                cases.append((qid, seq, w, m, any_e, gb))
    for d in (dA, dB, dC):
        lines.append("DROP " + d.did)
    return lines, cases


def run(rep, scratch, tier, seed, replay=None):
    rng = random.Random(seed)
    if replay:
        lines, cases = replay["lines"], [(c[0], None, None, None, None, None) for c in replay["cases"]]
    else:
        lines, cases = gen(rng, tier)
    impl, model, spec, rc, err = dp.run_dp(scratch, lines, "c08")
    if rc != 0:
        raise core.FrameworkError("harness exited with %d: %s" % (rc, err[-2000:]))
    nexec = 0
    nontrivial = 0
    bad = []
    for case in cases:
        qid = case[0]
        j = 0
        while ("QV", "%s.%d" % (qid, j)) in model:
            a = impl.get(("QV", "%s.%d" % (qid, j)))
            b = model[("QV", "%s.%d" % (qid, j))]
            fresh_i = impl.get(("Q", "%s.f%d" % (qid, j)))
            fresh_m = model.get(("Q", "%s.f%d" % (qid, j)))
            nexec += 1
            if b != fresh_m:
                raise core.FrameworkError("model-internal: run_q differs from a fresh execute on %s.%d" % (qid, j))
            if j > 0 and b.startswith("OK") and int(b.split()[2]) > 0:
                nontrivial += 1
            if a != b or fresh_i != b:
                bad.append((qid, j, a, fresh_i, b))
            j += 1
        f = impl.get(("QVF", qid))
        if f != "SAME":
            bad.append((qid, -1, f, None, "SAME"))
    for hid in ([] if replay else holes):
        for j in range(2):
            a, b = impl.get(("QH", "%s.%d" % (hid, j))), model.get(("QH", "%s.%d" % (hid, j)))
            nexec += 1
            if a != b:
                i0 = next(i for i, l in enumerate(lines) if l.startswith("DATASET %s_0 " % hid.split(".")[0]))
                blk = lines[i0:i0 + 1 + int(lines[i0].split()[2])] + [l for l in lines if l.startswith("QHOLE") and l.split()[1] == hid]
                rep.violation("correspondence", "a Query %s (%s): implementation %s, a fresh query (model) %s" % (
                    ["executed while one operand was missing", "completed in place by its caller after a rejected execution and executed again"][j], hid, (a or "NONE")[:200], (b or "NONE")[:200]),
                    {"lines": blk, "cases": [[hid]], "impl": a, "model": b})
                bad.append((hid + ".m", j, a, None, b))
                break
        if bad:
            break
    for mid in ([] if replay or bad else mods):
        for j in range(4):
            a, b = impl.get(("QM", "%s.%d" % (mid, j))), model.get(("QM", "%s.%d" % (mid, j)))
            nexec += 1
            if a != b:
                what = ["first execution", "after the caller rewrote the tree in place and replaced the group-by list", "value copy of the Query with the group-by list cleared", "group-by list restored"][j]
                blk = [l for l in lines if l.startswith("DATASET %s_0 " % mid.split(".")[0]) or (l.startswith("QMOD") and l.split()[1] == mid)]
                i0 = next(i for i, l in enumerate(lines) if l.startswith("DATASET %s_0 " % mid.split(".")[0]))
                blk = lines[i0:i0 + 1 + int(lines[i0].split()[2])] + [l for l in lines if l.startswith("QMOD") and l.split()[1] == mid]
                rep.violation("correspondence", "a Query value modified by its caller between executions (%s): %s -> implementation %s, a fresh query (model) %s" % (mid, what, (a or "NONE")[:200], (b or "NONE")[:200]),
                              {"lines": blk, "cases": [[mid]], "impl": a, "model": b})
                bad.append((mid, j, a, None, b))
                break
        if bad and bad[-1][0] == mid:
            break
    if bad and not bad[0][0].split(".")[1].startswith("m"):
        qid, j, a, fi, b = bad[0]
        keep = [l for l in lines if l.startswith("DATASET %s_" % qid.split(".")[0]) or l.startswith("R ") or (" %s" % qid) in l]
        # keep the whole block of this case (datasets + its QVAL/QUERY lines)
        base = qid.split(".")[0]
        blk, on = [], False
        for l in lines:
            if l.startswith("DATASET "):
                on = l.split()[1].startswith(base + "_")
            if on or (l.startswith(("QVAL", "QUERY")) and l.split()[1].startswith(qid)):
                if not l.startswith("DROP"):
                    blk.append(l)
        rep.violation("correspondence",
                      "execution #%d of one Query value (%s): reused query %s, fresh query %s, model %s" % (j + 1, qid, (a or "NONE")[:200], (fi or "NONE")[:200], (b or "NONE")[:200]),
                      {"lines": blk, "cases": [[qid]], "impl_reused": a, "impl_fresh": fi, "model": b,
                       "how": "QVAL executes ONE *updog.Query on the listed indexes in order; QUERY lines are fresh queries"})
    rep.coverage.update({
        "evaluations": nexec, "distinct_nontrivial": nontrivial,
        "rule": "one *updog.Query executed 1..5 times on 1..3 indexes with different schemas (incl. a group-by column unknown on one of them), each result compared with a freshly constructed equal query and with the model; exported fields compared before/after. Non-trivial = a second or later execution returning at least one group.",
        "cases": len(cases), "failures": len(bad),
        "samples": [lines[next((i for i, l in enumerate(lines) if l.startswith("QVAL")), 0)][:300]],
    })
    rep.assumptions += ["the Query's exported fields are Expr and GroupBy; hidden state is observed only through results"]

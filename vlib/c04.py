"""C04 — concurrent queries are race-free and return sequential answers.
(T) lock obligations regenerated from the source (coq/obligations/ObC04.v: lockset discipline
    implies race freedom and atomic cache operations, Conc.v);
(D) N goroutines x queries on one handle, built with -race, every result compared with the
    sequential answer of a fresh uncached handle and with the model; LRUCache hammered directly."""
import os, random, re
from . import core, dp, locks, c03

PID = "C04"


def extra_obligations():
    return (0, 0)


def gen(rng, tier):
    lines, cases = [], []
    nds = 4 if tier == "quick" else 12
    for i in range(nds):
        ds = dp.shaped_dataset(rng, "g%d" % i, rng.choice([200, 1001, 3000])) if i % 2 else dp.small_dataset(rng, "g%d" % i, hostile=False)
        if not ds.rows:
            ds = dp.shaped_dataset(rng, "g%d" % i, 300)
        lines += ds.lines()
        cols = sorted(ds.values())
        for cn, (nthreads, cap, mode) in enumerate([(2, 400, "ondemand"), (4, 1 << 22, "preload"), (8, 2000, "ondemand"), (16, -2, "preload"), (8, 0, "ondemand"), (4, 150, "preload")]):
            if tier == "quick" and cn >= 4 and i > 0:
                continue
            pool = c03.pool_for(rng, ds)
            cid = "%s.c%d" % (ds.did, cn)
            w = rng.choice(dp.WRITERS)
            per = 200 if tier == "quick" else 600
            lines.append("CONC %s %s %s %s %d %d %d %d %d" % (cid, ds.did, w, mode, cap, nthreads, per, rng.randrange(1, 1 << 20), len(pool)))
            qs = []
            for j, e in enumerate(pool):
                gb = [rng.choice(cols)] if cols and rng.random() < 0.15 else []
                qid = "%s.%d" % (cid, j)
                lines.append("HQ %s %s %s %s %s GB %d%s" % (qid, ds.did, w, mode, dp.enc_expr(e), len(gb), "".join(" " + core.enc_str(c) for c in gb)))
                qs.append((qid, e, gb))
            cases.append((cid, ds, w, mode, cap, nthreads, qs))
        lines.append("DROP " + ds.did)
    for k, (cap, nth) in enumerate([(0, 4), (200, 8), (5000, 16), (1 << 22, 8)]):
        lines.append("LRUD l%d %d %d %d %d %d" % (k, cap, nth, 3000 if tier == "quick" else 20000, 12, rng.randrange(1, 1 << 20)))
    return lines, cases


def run_race(scratch, lines, tag, timeout=1500):
    path = scratch.path("c04-%s.txt" % tag)
    with open(path, "w") as fh:
        fh.write("\n".join(lines) + "\n")
    ilines, rc, err = core.run_impl(scratch, "dp", path, race=True, timeout=timeout,
                                    env={"GORACE": "halt_on_error=1 exitcode=66 history_size=3"})
    mlines = core.run_model("dp", path)
    impl, model = {}, {}
    for l in ilines:
        f = l.split(" ", 2)
        if len(f) >= 2:
            impl[(f[0], f[1])] = f[2] if len(f) > 2 else ""
    for l in mlines:
        f = l.split(" ", 2)
        if len(f) >= 2:
            model[(f[0], f[1])] = f[2] if len(f) > 2 else ""
    races = len(re.findall(r"WARNING: DATA RACE", err))
    return impl, model, rc, err, races


def dynamic(rep, scratch, tier, seed, budget_note=""):
    rng = random.Random(seed)
    lines, cases = gen(rng, tier)
    impl, model, rc, err, races = run_race(scratch, lines, "main")
    nq = 0
    found = False
    wrong = [(k, v) for k, v in impl.items() if k[0] in ("CONC", "LRUD") and not v.startswith("OK")]
    mism = []
    for cid, ds, w, mode, cap, nth, qs in cases:
        for qid, e, gb in qs:
            nq += 1
            a, b = impl.get(("HQ", qid)), model.get(("HQ", qid))
            if a is not None and a != b:
                mism.append((qid, a, b))
    first_race = ""
    if races:
        m = re.search(r"WARNING: DATA RACE.*?(?=\n==================|\Z)", err, re.S)
        first_race = (m.group(0) if m else "")[:3000]
    crashed = rc not in (0, 66)
    if races or wrong or crashed:
        found = True
        what = []
        if races:
            what.append("%d data race reports" % races)
        if wrong:
            what.append("wrong/panicking concurrent results: %s %s" % (wrong[0][0][1], wrong[0][1][:200]))
        if crashed:
            what.append("harness process died (rc=%s): %s" % (rc, err[-400:].replace("\n", " | ")))
        rep.violation("race" if races else "concurrent-result", "%s%s: %s" % (budget_note, "-race run, goroutines sharing one index handle / one LRUCache", "; ".join(what)),
                      {"case_file_lines": lines[:0], "seed": seed, "tier": tier, "race_reports": races, "first_race_report": first_race,
                       "wrong": [[k[1], v[:300]] for k, v in wrong[:5]], "harness_rc": rc,
                       "how": "re-run: ./check C04 --seed %d (the case file is regenerated from the seed; the scheduler is not deterministic, the race detector reports are)" % seed})
    if mism and not found:
        qid, a, b = mism[0]
        rep.violation("correspondence", "sequential reference result differs from the model on %s: %s vs %s" % (qid, a[:200], b[:200]), {"qid": qid, "impl": a, "model": b})
        found = True
    rep.coverage.update({
        "evaluations": nq + sum(int(v.split()[1]) for k, v in impl.items() if k[0] == "CONC" and v.startswith("OK")),
        "distinct_nontrivial": sum(1 for k, v in impl.items() if k[0] == "CONC" and v.startswith("OK") and int(v.split()[1]) > 0),
        "rule": "goroutines in {2,4,8,16} x 200..600 queries each from a pool with shared sub-expressions on ONE index handle x {no cache option, LRU 0, tiny, small, ample} x {on demand, preloaded}, GetSchema interleaved, built with -race; every concurrent result compared in-process with the sequential answer of a fresh uncached handle, those answers compared with the model; LRUCache.Get/Put hammered directly by 4..16 goroutines with identity-carrying bitmaps. Non-trivial = concurrent runs in which all results were checked.",
        "race_reports": races, "concurrent_runs": len(cases), "lru_direct_runs": sum(1 for k in impl if k[0] == "LRUD"),
        "samples": [lines[next((i for i, l in enumerate(lines) if l.startswith("CONC")), 0)]],
    })
    return found


def server_stress(rep, scratch, tier, seed):
    """Concurrent RPCs against the real server built with -race (default cache on)."""
    import concurrent.futures
    from . import wirecommon as wc, c13
    rng = random.Random(seed + 77)
    ds = wc.dataset()
    idx = wc.make_index(scratch, ds, "c04srv")
    srv = wc.Server(scratch, idx, cache=True, race=True)
    nclients = 4 if tier == "quick" else 12
    bad = 0
    try:
        batches = [c13.gen(random.Random(seed * 100 + k), "quick", ds)[:(60 if tier == "quick" else 150)] for k in range(nclients)]
        # every client also sends the SAME requests (grouped queries, repeated), so that identical
        # queries are in flight at the same moment: anything the server keeps per query text
        # or per converted query is then shared between requests
        a1 = ("E", wc.COLS[0], b"1", 0)
        t2 = ("O", [a1, ("N", ("E", wc.COLS[1], b"x", 0))])
        same = [("z%d" % j, [wc.enc_q(0, t2, [wc.COLS[j % 3], wc.COLS[(j + 1) % 3]]), wc.enc_q(0, a1, [wc.COLS[(j + 2) % 3]]), wc.enc_q(0, t2, [])]) for j in range(6)]
        same = same * (8 if tier == "quick" else 30)
        same = [("%s_%d" % (rid, n), qs) for n, (rid, qs) in enumerate(same)]
        batches = [same[:len(same) // 2] + b + same[len(same) // 2:] for b in batches]

        def client(k):
            impl, model, rc, err, lines = wc.run_wire(scratch, ds, batches[k], srv.addr, idx, "c04srv%d" % k)
            wrong = [(rid, impl.get(rid), model.get(rid)) for rid, _ in batches[k] if impl.get(rid) != model.get(rid)]
            return wrong
        with concurrent.futures.ThreadPoolExecutor(max_workers=nclients) as ex:
            results = list(ex.map(client, range(nclients)))
        alive = srv.alive()
    finally:
        srv.stop()
    out = srv.output()
    races = out.count("WARNING: DATA RACE")
    wrong = [w for r in results for w in r]
    if races or not alive or wrong:
        bad = 1
        m = re.search(r"WARNING: DATA RACE.*?(?=\n==================|\Z)", out, re.S)
        rep.violation("race" if races else "concurrent-rpc",
                      "updog server (built with -race, cache on) under %d concurrent clients: %d data race report(s), alive=%s, %d wrong responses%s" % (
                          nclients, races, alive, len(wrong), (" e.g. %s: %s vs model %s" % (wrong[0][0], str(wrong[0][1])[:100], str(wrong[0][2])[:100])) if wrong else ""),
                      {"first_race_report": (m.group(0) if m else "")[:3000], "server_output_tail": out[-800:], "seed": seed})
    rep.coverage["server_concurrent_rpcs"] = {"clients": nclients, "requests": sum(len(b) for b in batches), "race_reports": races, "wrong": len(wrong)}
    return bad


def run(rep, scratch, tier, seed, replay=None):
    ob = locks.check_obligations(scratch, PID)
    rep.coverage["lock_obligations"] = {"file": "coq/obligations/ObC04.v", "ok": ob["ok"], "theorems": ob["theorems"],
                                        "closed_under_global_context": ob["closed"], "wall_s": ob.get("wall_s")}
    rep.coverage["obligations"] = rep.coverage.get("obligations", 0) + len(ob["theorems"])
    rep.coverage["discharged"] = rep.coverage.get("discharged", 0) + (len(ob["theorems"]) if ob["ok"] else 0)
    rep.coverage["translator"] = "tools/lockskel (go/parser + go/ast) regenerates Gen/LockFacts.v from the working tree on every run"
    found = False
    if not ob["ok"]:
        # the proof obligation no longer checks: search for a concrete race / wrong answer
        found = dynamic(rep, scratch, "thorough" if tier == "thorough" else "quick", seed, budget_note="lock obligation C04_locks fails; search: ")
        if not found:
            for extra in range(1, 4):
                if dynamic(rep, scratch, tier, seed + extra, budget_note="lock obligation C04_locks fails; search: "):
                    found = True
                    break
        if not found:
            rep.violation("obligation", "the generated lock obligation of C04 no longer checks (coq/obligations/ObC04.v against the skeletons of the working tree); the race stress found no failing schedule",
                          {"broken": "C04_locks : well_locked_all policy_C04 funs skeletons_C04 = true", "unknown_to_policy": ob.get("unknown_to_policy", ""), "coqc_output": ob["output"][-2500:],
                           "facts": "regenerate with tools/lockskel <repo> LockFacts.v"}, no_input=True)
        return
    dynamic(rep, scratch, tier, seed)
    server_stress(rep, scratch, tier, seed)
    rep.assumptions += ["data races inside roaring / bbolt / metric sinks on concurrently read objects are outside the skeletons (race detector only)",
                        "the lock policy (coq/theories/LockPolicy.v) is hand-written; the translator is syntactic"]

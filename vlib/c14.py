"""C14 — no request can crash the server: systematic structural omissions at every position
of valid expression trees (unset oneof, Not without operand, empty And/Or, query without
expression, unknown column, unresolved placeholder, deep nesting), interleaved with well-formed
probes, run in-process (convert.ToQuery + Execute under recover) and against the real `updog
server` process, which must still be alive and answering at the end; every answer compared with
the model (Adapters.serve)."""
import random, sys
sys.setrecursionlimit(100000)
from . import core, wirecommon as wc

PID = "C14"


def gen(rng, tier, ds):
    reqs = []
    n = 0
    probe = ("E", b"a", b"1", 0)

    def add(qs):
        nonlocal n
        n += 1
        reqs.append(("r%d" % n, qs))
    add([wc.enc_q(0, None, [])])                                   # query without expression
    add([wc.enc_q(0, ("U",), [])])
    add([wc.enc_q(0, ("N0",), [])])
    add([wc.enc_q(0, ("A", [("U",)]), [])])
    add([wc.enc_q(0, ("A", []), [])])
    add([wc.enc_q(0, ("O", []), [b"a"])])
    add([wc.enc_q(0, ("E", b"nosuch", b"1", 0), [])])
    add([wc.enc_q(0, ("E", b"a", b"", 3), [])])                    # unresolved placeholder
    add([wc.enc_q(0, probe, [b"nosuch"])])
    add([])                                                        # empty batch
    # requests the library rejects at evaluation time (unknown column), in every position
    bad = ("E", b"nosuch", b"1", 0)
    for t in (("N", bad), ("N", ("N", bad)), ("A", [probe, ("N", bad)]), ("O", [("N", ("O", [probe, bad])), probe]), ("A", [bad]), ("O", [probe, bad, probe]),
              ("N", ("A", [probe, ("O", [bad])])), ("A", [("N", probe), ("N", bad), ("N", probe)])):
        add([wc.enc_q(0, t, [])])
        add([wc.enc_q(0, t, [b"a"])])
    # unknown columns / group-by columns with long and non-ASCII names (they end up in error texts)
    for name in ("列" * 30, "名前" * 40, "é" * 95, "x" * 95 + "é" * 3, "x" * 300, "a\xff\xfeb" * 20, "\U0001F436" * 25, "ab" * 47 + "é", "\n\t\"q\"" * 12):
        nb = name.encode("utf-8", "surrogateescape") if isinstance(name, str) else name
        add([wc.enc_q(0, ("E", nb, b"1", 0), [])])
        add([wc.enc_q(0, probe, [nb])])
        add([wc.enc_q(0, ("N", ("O", [probe, ("E", nb, nb, 0)])), [b"a", nb])])
    add([wc.enc_q(0, probe, [b"a"])])
    for d in ([50, 400] if tier == "quick" else [50, 400, 3000]):
        t = probe
        for _ in range(d):
            t = ("N", t)
        add([wc.enc_q(0, t, [])])
        t = ("N0",)
        for _ in range(d):
            t = ("A", [t])
        add([wc.enc_q(0, t, [])])
    # many invalid members in one batch (the handler must fail the call, whatever it does per member)
    for k in (2, 8, 32):
        for _ in range(10 if tier == "quick" else 60):
            add([wc.enc_q(0, rng.choice([None, ("U",), ("N0",), ("E", b"nosuch", b"1", 0), ("A", [("U",)])]), []) for _ in range(k)])
            add([wc.enc_q(0, probe, [b"a"])])
    for _ in range(25 if tier == "quick" else 1500):
        t = wc.rand_valid(rng, rng.choice([1, 2, 3, 4]), ds)
        for pos in list(wc.positions(t))[:40]:
            for hole in (("U",), ("N0",), ("A", []), ("O", [("U",)])):
                add([wc.enc_q(rng.choice([0, 5]), wc.replace_at(t, pos, hole), rng.choice([[], [b"a"], [b"b", b"c"]]))])
        add([wc.enc_q(0, t, []), wc.enc_q(0, None, []), wc.enc_q(0, t, [])])   # a bad member in the middle of a batch
        add([wc.enc_q(0, probe, [b"a"])])                                       # well-formed probe
    return reqs


def compare(rep, reqs, impl, model, where, lines, stats):
    bad = []
    for rid, qs in reqs:
        a, b = impl.get(rid), model.get(rid)
        if b is None:
            raise core.FrameworkError("model produced nothing for " + rid)
        stats[b.split()[0]] = stats.get(b.split()[0], 0) + 1
        if a != b:
            bad.append((rid, qs, a, b))
    seen = set()
    for rid, qs, a, b in bad:
        cls = ((a or "NONE").split()[0], b.split()[0])
        if cls in seen:
            continue
        seen.add(cls)
        rep.violation("correspondence" if (a or "").split()[:1] not in (["PANIC"], ["DOWN"], ["HANG"]) else "monitor:crash",
                      "%s: request %s -> implementation %s, model %s" % (where, " ; ".join(q[:120] for q in qs)[:300], str(a)[:160], b[:160]),
                      {"where": where, "request": qs, "impl": a, "model": b, "dataset_lines": lines[:45],
                       "how": "WQ <id> (NONE | X <tree>) GB ..: trees use U = expression without value, N0 = Not without operand"})
    return len(bad)


def fuzz(rep, scratch, ds, idx, seed, n):
    import subprocess
    p = subprocess.run([scratch.harness(), "wirefuzz", str(n), str(seed), idx], cwd=scratch.dir, env=core.GOENV, capture_output=True, timeout=900)
    out = p.stdout.decode("utf-8", "replace").splitlines()
    if p.returncode != 0:
        rep.violation("monitor:crash", "the in-process handler died on a decodable random message (harness rc=%d): %s" % (p.returncode, p.stderr.decode("utf-8", "replace")[:400]),
                      {"stderr": p.stderr.decode("utf-8", "replace")[:3000], "last_request": [l for l in out if l.startswith(("REQ", "WQ"))][-6:]})
        return len(out), 1
    case = ds.lines() + [l for l in out if l.startswith(("REQ ", "WQ "))]
    path = scratch.path("c14-fuzz.txt")
    with open(path, "w") as fh:
        fh.write("\n".join(case) + "\n")
    model = {l.split(" ", 2)[1]: l.split(" ", 2)[2] for l in core.run_model("wire", path) if l.startswith("REQ ")}
    resp = {l.split(" ", 2)[1]: l.split(" ", 2)[2] for l in out if l.startswith("RESP ")}
    bad = [(rid, a, model.get(rid)) for rid, a in resp.items() if model.get(rid) != a]
    for rid, a, b in bad[:2]:
        i = next(k for k, l in enumerate(out) if l.startswith("REQ %s " % rid))
        nq = int(out[i].split()[2])
        rep.violation("monitor:crash" if a.startswith("PANIC") else "correspondence",
                      "decoded random message %s -> implementation %s, model %s" % (" ; ".join(out[i + 1:i + 1 + nq])[:300], a[:150], str(b)[:150]),
                      {"request": out[i + 1:i + 1 + nq], "impl": a, "model": b, "dataset_lines": ds.lines()[:45]})
    return len(resp), len(bad)


def run(rep, scratch, tier, seed, replay=None):
    rng = random.Random(seed)
    ds = wc.dataset()
    idx = wc.make_index(scratch, ds, "c14")
    reqs = gen(rng, tier, ds)
    if replay:
        reqs = [("r1", replay["request"])]
    stats = {}
    impl, model, rc, err, lines = wc.run_wire(scratch, ds, reqs, "inproc", idx, "c14i")
    if rc != 0:
        raise core.FrameworkError("wire harness (in-process) exited with %d: %s" % (rc, err[:1200]))
    nbad = compare(rep, reqs, impl, model, "in-process (convert.ToQuery + Index.Execute)", lines, stats)
    implp, modelp, rcp, errp, _ = wc.run_wire(scratch, ds, reqs, "inproc", idx, "c14ip", extra=["preload"])
    if rcp != 0:
        raise core.FrameworkError("wire harness (in-process, preloaded) exited with %d: %s" % (rcp, errp[:1200]))
    nbad += compare(rep, reqs, implp, modelp, "in-process, preloaded + LRU cache", lines, {})
    # an index whose schema has no column at all (rows without columns; no rows): every request that
    # names a column must be answered with an error
    from . import dp
    for did, rows in (("nocols", [{}, {}, {}]), ("norows", [])):
        dse = dp.Dataset(did, rows, "empty-schema")
        idxe = wc.make_index(scratch, dse, "c14" + did)
        reqs_e = [("n%d" % i, qs) for i, qs in enumerate([[wc.enc_q(0, ("E", b"a", b"1", 0), [])], [wc.enc_q(0, ("N", ("E", b"a", b"1", 0)), [b"a"])], [wc.enc_q(0, ("O", []), [b"zz"])],
                                                         [wc.enc_q(0, ("A", [("E", b"", b"", 0)]), [])], [wc.enc_q(3, ("N", ("O", [])), [])], [wc.enc_q(0, ("O", []), [])]])]
        ie, me, rce, erre, le = wc.run_wire(scratch, dse, reqs_e, "inproc", idxe, "c14e" + did)
        if rce != 0:
            raise core.FrameworkError("wire harness (in-process, %s) exited with %d: %s" % (did, rce, erre[:800]))
        nbad += compare(rep, reqs_e, ie, me, "in-process, index with an empty schema (%s)" % did, le, {})
    # against the server process: it must survive everything
    for cache, preload in (((True, True),) if tier == "quick" else ((True, True), (True, False), (False, False), (False, True))):
        srv = wc.Server(scratch, idx, cache=cache, preload=preload)
        try:
            impl2, model2, rc2, err2, _ = wc.run_wire(scratch, ds, reqs, srv.addr, idx, "c14s")
            alive = srv.alive()
            status = srv.exit_status()
        finally:
            srv.stop()
        if not alive:
            killer = next(((rid, qs) for rid, qs in reqs if (impl2.get(rid) or "").startswith("DOWN")), None)
            rep.violation("monitor:server-died", "the updog server process exited (status %s) while serving request %s" % (status, killer[1][0][:200] if killer and killer[1] else "?"),
                          {"request": killer[1] if killer else None, "server_output_tail": srv.output()[-1500:], "dataset_lines": lines[:45]})
            nbad += 1
        else:
            nbad += compare(rep, reqs, impl2, model2, "updog server (cache %s, preload %s)" % ("on" if cache else "off", "on" if preload else "off"), lines, {})
    # random byte-mutated messages that the real proto.Unmarshal accepts, answered in-process
    nfuzz, fuzz_bad = fuzz(rep, scratch, ds, idx, seed, 1500 if tier == "quick" else 150000)
    nbad += fuzz_bad
    rep.coverage["fuzzed_decodable_messages"] = nfuzz
    rep.coverage.update({
        "evaluations": len(reqs) * 2 + nfuzz, "distinct_nontrivial": len(set(" ".join(qs) for _, qs in reqs)),
        "rule": "fixed omission cases (no expression, unset oneof, Not without operand, empty / unset-member And/Or, unknown column, unresolved placeholder, unknown group-by column, empty batch, nesting 50/400(/3000)), and for random valid trees every position replaced by each of 4 holes, a bad member in the middle of a batch, each followed by a well-formed probe; run in-process under recover and against the real server process (must be alive at the end). Non-trivial = distinct requests.",
        "model_outcomes": stats, "failures": nbad, "samples": [reqs[14][1][0][:300]],
    })
    rep.assumptions += ["the request shapes are those proto.Unmarshal can produce (set oneof members and repeated elements are never nil)",
                        "HTTP/2 transport and protobuf decoding limits (nesting 10000) are trusted"]

"""C19 — `updog create` ingests a CSV faithfully in both modes: the built binary on CSV files
written by encoding/csv from generated records (quotes, commas, newlines, non-ASCII, invalid
UTF-8, empty fields, hostile headers), normal and -b, output absent / present, malformed
files; exit status; the created index compared (schema, per-value probes, membership through an
id column, group-by) with the model's index of the ingested records (Csv.v create/ingest);
header normalisation compared rune by rune (sampled; all code points in thorough)."""
import hashlib, os, random, subprocess
from . import core, dp

PID = "C19"
FIELDS = [b"", b"1", b"x", b'q"uote', b'""', b"a,b", b"new\nline", b"\xc3\xa9", b"\xff\xfe", b" lead", b"trail ", b"\t", b"\x00", b"'", b"L" * 40, b"\xf0\x9f\x90\xb6"]
HEADERS = ["Name", "Favourite Colour", "KKz", "id", "A-b", "İx", "été", "UPPER", "with_underscore", "d1g1t", "  ", "中文", "x.y"]


def sha(path):
    try:
        return hashlib.sha256(open(path, "rb").read()).hexdigest()
    except OSError:
        return "ABSENT"


def rec_line(fields):
    return "REC %d%s" % (len(fields), "".join(" " + core.enc_str(f) for f in fields))


def norm_py(h):
    """Only used to keep generated headers distinct after normalisation (never for a verdict)."""
    out = ""
    for ch in h.lower() if isinstance(h, str) else h:
        out += ch if "a" <= ch <= "z" else "_"
    return out


def gen_case(rng, cid, nrec=None):
    k = rng.randrange(1, 6)
    hdr, seen = [], set()
    while len(hdr) < k:
        h = rng.choice(HEADERS)
        n = norm_py(h)
        if n not in seen and n != "id":
            seen.add(n)
            hdr.append(h)
    hdr = ["ID"] + hdr                      # a unique-per-record column makes membership observable
    n = nrec if nrec is not None else rng.choice([0, 1, 2, 5, 20, 60])
    recs = []
    for i in range(n):
        recs.append([b"r%05d" % i] + [rng.choice(FIELDS) for _ in range(k)])
    return [h.encode("utf-8") for h in hdr], recs


def run_binary(scratch, args, cwd, timeout=120):
    """Exit status of the updog binary; -9999 stands for 'still running after the timeout' (killed)."""
    try:
        p = subprocess.run([scratch.updog_binary()] + args, cwd=cwd, env=core.GOENV, capture_output=True, timeout=timeout)
    except subprocess.TimeoutExpired:
        return -9999, "HANG: no exit within %d s" % timeout
    return p.returncode, (p.stdout + p.stderr).decode("utf-8", "replace")[-400:]


def make_csv(scratch, d, name, hdr, recs, raw_tail=None, style=None):
    recfile = os.path.join(d, name + ".rec")
    with open(recfile, "w") as fh:
        if style:
            fh.write("STYLE %s\n" % style)
        fh.write(rec_line(hdr) + "\n")
        for r in recs:
            fh.write(rec_line(r) + "\n")
        if raw_tail is not None:
            fh.write("RAW %s\n" % core.enc_str(raw_tail))
    csvp = os.path.join(d, name + ".csv")
    p = subprocess.run([scratch.harness(), "mkcsv", recfile, csvp], cwd=scratch.dir, env=core.GOENV, capture_output=True, timeout=120)
    if p.returncode != 0:
        raise core.FrameworkError("mkcsv failed: " + p.stderr.decode("utf-8", "replace")[-400:])
    hdr_lines = [l for l in p.stdout.decode().splitlines() if l.startswith("HDR ")]
    return csvp, hdr_lines


def probe_lines(cid, writer, mode, cols, recs, rng):
    lines = ["SCHEMA %s.sch %s %s" % (cid, cid, writer)]
    qn = 0
    for i, r in enumerate(recs[:40]):
        qn += 1
        e = ("A", [dp.e_eq(cols[0], r[0])] + [dp.e_eq(c, v) for c, v in zip(cols[1:], r[1:])])
        lines.append("QUERY %s.q%d %s %s %s 0 %s GB 1 %s" % (cid, qn, cid, writer, mode, dp.enc_expr(e), core.enc_str(cols[0])))
    for c in cols[1:]:
        qn += 1
        lines.append("QUERY %s.q%d %s %s %s 0 %s GB 2 %s %s" % (cid, qn, cid, writer, mode, dp.enc_expr(("N", dp.e_eq(cols[0], b"nope"))), core.enc_str(c), core.enc_str(cols[0])))
    return lines


def write_table(rng, recs, style=None):
    """CSV text of the records in one of many spellings (which fields are quoted although
    they need not be, LF or CR LF line ends, final line end or not, blank lines)."""
    pq = rng.choice([0.0, 0.0, 0.3, 1.0]) if style is None else style
    nl = rng.choice([b"\n", b"\n", b"\r\n"])
    out = b""
    for i, r in enumerate(recs):
        if rng.random() < 0.08:
            out += nl
        fs = []
        for f in r:
            if any(c in f for c in b'",\n\r') or rng.random() < pq or (f == b"" and len(r) == 1):
                fs.append(b'"' + f.replace(b'"', b'""') + b'"')
            else:
                fs.append(f)
        out += b",".join(fs)
        if i + 1 < len(recs) or rng.random() < 0.7:
            out += nl
    return out


def mutate_text(rng, t):
    t = bytearray(t)
    for _ in range(rng.randrange(1, 4)):
        k = rng.random()
        pos = rng.randrange(len(t) + 1)
        if k < 0.4 and t:
            del t[min(pos, len(t) - 1)]
        elif k < 0.8:
            t.insert(pos, rng.choice(b'",\n\r a'))
        elif t:
            t[min(pos, len(t) - 1)] = rng.choice(b'",\n\r a\xff')
    return bytes(t)


def raw_texts(rng, n):
    """(text, kind): written tables in random spellings and byte-level mutations of them."""
    res = [(t, "directed") for t in (
        b"ID,a,b\nr0,x,y\n,,\nr2,,\n,,\n",                       # records made of empty fields only
        b'a\n""\nx\n""\n',                                        # the same with one column
        b"\n\nID,a\nr0,1\n\nr1,2\n",                             # blank lines before the header and between records
        b'"multi\nline",b\n1,2\n',                                 # a line break inside a header field
        b'ID,"a\r\nb"\r\nr0," x"\r\n',                            # CR LF everywhere
        b"ID,a\nr0,1",                                              # no final line end
        b'"ID","a"\n"r0","q""t"\n"r1",""\n',                       # everything quoted
        b"ID\nr0\nr1\n",                                           # one column
        b"\xef\xbb\xbfID,a\nr0,1\n",                              # a byte-order mark is part of the first header field
        b"ID,a\n#beta,2\nr1,3\n# not a comment,4\n",               # records beginning with '#': data, not comments
        b"#ID,a\nr0,1\n;r1,2\n",                                   # the header too
        b"ID;a\nr0;1\n",                                           # a semicolon is not a separator
        b"ID\ta\nr0\t1\n",                                         # nor is a tab
    )]
    pool = [b"", b"a", b"b c", b'q"t', b'"', b",", b"x,y", b"l1\nl2", b"\r", b"a\rb", b" lead", b"trail ", b"\xc3\xa9", b"\xff", b"\x00", b"\t"]
    while len(res) < n:
        k = rng.randrange(1, 5)
        recs = [[rng.choice([b"ID", b"Name", b"A b", b"\xc3\x89t\xc3\xa9", b"x\xffy", b"K\xe2\x84\xaa", b"c%d" % j]) for j in range(k)]]
        recs += [[rng.choice(pool) for _ in range(k)] for _ in range(rng.choice([0, 1, 2, 3, 6]))]
        if any(b"\r\n" in f for r in recs for f in r):
            continue
        t = write_table(rng, recs)
        res.append((t, "written"))
        res.append((mutate_text(rng, t), "mutated"))
    return res[:n]


def reader_level(rep, scratch, rng, tier, bad):
    """encoding/csv with create.go's (default) configuration and Go's UTF-8 decoding against
    csv_read / utf8_decode of CsvBytes.v, text by text."""
    lines, meta = [], {}
    alpha = [97, 34, 44, 10, 13]
    maxlen = 6 if tier == "quick" else 8
    k = 0
    import itertools
    for n in range(maxlen + 1):
        for t in itertools.product(alpha, repeat=n):
            k += 1
            lines.append("CSVTEXT e%d %s" % (k, core.enc_str(bytes(t))))
    nexh = k
    for t, kind in raw_texts(rng, 3000 if tier == "quick" else 60000):
        k += 1
        lines.append("CSVTEXT t%d %s" % (k, core.enc_str(t)))
    ncsv = k
    # UTF-8: every byte alone, lead bytes x second bytes, boundary third / fourth bytes, random strings
    seqs = [bytes([b]) for b in range(256)]
    for b0 in (range(0xC0, 0x100) if tier == "quick" else range(0x80, 0x100)):
        for b1 in (range(0x70, 0xD0) if tier == "quick" else range(256)):
            seqs.append(bytes([b0, b1]))
    edge = [0x7F, 0x80, 0x8F, 0x90, 0x9F, 0xA0, 0xBF, 0xC0]
    for b0 in (0xE0, 0xE1, 0xEC, 0xED, 0xEE, 0xEF):
        for b1 in edge:
            for b2 in (0x7F, 0x80, 0xBF, 0xC0):
                seqs.append(bytes([b0, b1, b2]))
                seqs.append(bytes([b0, b1, b2, 0x41]))
    for b0 in (0xF0, 0xF1, 0xF3, 0xF4, 0xF5, 0xF8, 0xFF):
        for b1 in edge:
            for b2 in (0x7F, 0x80, 0xBF, 0xC0):
                for b3 in (0x7F, 0x80, 0xBF, 0xC0):
                    seqs.append(bytes([b0, b1, b2, b3]))
        seqs.append(bytes([b0, 0x90]))
        seqs.append(bytes([b0, 0x90, 0x80]))
    for _ in range(2000 if tier == "quick" else 50000):
        parts = []
        for _ in range(rng.randrange(1, 6)):
            r = rng.random()
            if r < 0.5:
                cp = rng.choice([rng.randrange(0x80), rng.randrange(0x80, 0x800), rng.randrange(0x800, 0x10000), rng.randrange(0x10000, 0x110000), 0xD7FF, 0xE000, 0xFFFD, 0x10FFFF])
                if 0xD800 <= cp <= 0xDFFF:
                    cp = 0xFFFD
                parts.append(chr(cp).encode("utf-8"))
            elif r < 0.7:
                e = chr(rng.randrange(0x80, 0x110000) if rng.random() < 0.5 else 0x20AC).encode("utf-8", "surrogatepass")
                parts.append(e[:rng.randrange(1, len(e) + 1)])         # truncated sequence
            else:
                parts.append(bytes(rng.choice([0x80, 0xBF, 0xC0, 0xC1, 0xE0, 0xED, 0xF4, 0xF5, 0xFF, 0xA0, 0x41]) for _ in range(rng.randrange(1, 4))))
        seqs.append(b"".join(parts))
    for sq in seqs:
        k += 1
        lines.append("RUNES u%d %s" % (k, core.enc_str(sq)))
    path = scratch.path("c19-reader.txt")
    open(path, "w").write("\n".join(lines) + "\n")
    iout, rc, err = core.run_impl(scratch, "csvread", path, timeout=900)
    if rc != 0:
        raise core.FrameworkError("csvread harness exited with %d: %s" % (rc, err[:800]))
    mout = core.run_model("csvbytes", path, timeout=900)
    if len(iout) != len(mout) or len(iout) != len(lines):
        raise core.FrameworkError("csvread: %d implementation lines, %d model lines, %d cases" % (len(iout), len(mout), len(lines)))
    nbad, accepted = 0, 0
    for l, a, b in zip(lines, iout, mout):
        if a.split()[0] == "CSVREAD" and a.split()[2] == "OK":
            accepted += 1
        if a != b:
            nbad += 1
            if nbad <= 2:
                toks = l.split()
                raw = bytes(int(x) for x in toks[3:])
                what = "encoding/csv (default configuration)" if toks[0] == "CSVTEXT" else "Go's UTF-8 decoding"
                bad.append((toks[1], "%s on %s: implementation %s, model (CsvBytes.v) %s" % (what, core.show_bytes(raw), a[:200], b[:200]), [], []))
    return {"csv_texts_exhaustive": nexh, "csv_texts_random": ncsv - nexh, "csv_texts_accepted": accepted, "utf8_strings": len(seqs), "max_exhaustive_length": maxlen, "mismatches": nbad}


def run(rep, scratch, tier, seed, replay=None):
    rng = random.Random(seed)
    d = scratch.path("c19")
    os.makedirs(d, exist_ok=True)
    scratch.harness()
    ncases = 12 if tier == "quick" else 120
    impl_lines, model_lines = [], []
    bad = []
    stats = {"created": 0, "rejected_existing": 0, "rejected_malformed": 0, "records": 0}
    cases = []
    for i in range(ncases):
        hdr, recs = gen_case(rng, i, nrec=1500 if i == 1 else None)
        if i == 2:
            hdr = [b"ID", b"a", b"ab", b"abc"]
            recs = [[b"r0", b"bc", b"z", b""], [b"r1", b"q", b"c", b"x"], [b"r2", b"b", b"", b"y"], [b"r3", b"bc", b"c", b""], [b"r4", b"", b"c", b"q"]]
        if i in (3, 4, 5):
            # the number of distinct (column, value) pairs is exactly 1000 / 2000 / 1001: the
            # in-memory writer commits every 1000 bitmaps
            n = {3: 999, 4: 1999, 5: 1000}[i]
            hdr = [b"ID", b"a"]
            recs = [[b"r%05d" % j, b"x"] for j in range(n)]
        if i == 7:
            # fields that agree on a long prefix (URLs, paths, free text)
            hdr = [b"ID", b"url"]
            recs = []
            for j, PL in enumerate((60, 64, 200, 250, 256, 300, 1000, 5000)):
                P = (b"http://example.org/some/long/path/segment/" * 130)[:PL]
                recs += [[b"r%da" % j, P + b"1"], [b"r%db" % j, P + b"2"], [b"r%dc" % j, P + b"2"], [b"r%dd" % j, P]]
        if i == 6:
            hdr = [b"ID", b" lead", b"trail ", b"\tTab", b"in ner"]
            recs = [[b"r0", b" padded", b"padded ", b"\tx", b" "], [b"r1", b"  ", b"\t", b" \t y", b"a b"], [b"r2", b"padded", b" padded ", b"x", b""]]
        stats["records"] += len(recs)
        # every second file is hand-written style: quotes only where needed, so leading and
        # trailing blanks sit in unquoted fields
        csvp, hdr_lines = make_csv(scratch, d, "c%d" % i, hdr, recs, style="minimal" if i % 2 == 0 else None)
        for big in (False, True):
            cid = "c%d%s" % (i, "b" if big else "m")
            out = os.path.join(d, cid + ".updog")
            rc, err = run_binary(scratch, ["create"] + (["-b"] if big else []) + ["-o", out, csvp], d)
            if rc != 0:
                bad.append((cid, "updog create%s exited %d on a well-formed CSV: %s" % (" -b" if big else "", rc, err[-200:]), hdr, recs))
                continue
            stats["created"] += 1
            rc_s, _ = run_binary(scratch, ["schema", "-f", out], d)
            if rc_s != 0:
                bad.append((cid, "`updog schema -f` exited %d on the created index" % rc_s, hdr, recs))
            # second run: the output exists now -> must fail and leave it untouched
            h0 = sha(out)
            rc2, _ = run_binary(scratch, ["create"] + (["-b"] if big else []) + ["-o", out, csvp], d)
            if rc2 == 0 or sha(out) != h0:
                bad.append((cid, "create on an existing output: exit %d, file %s" % (rc2, "unchanged" if sha(out) == h0 else "MODIFIED"), hdr, recs))
            else:
                stats["rejected_existing"] += 1
            writer = "big" if big else "mem"
            if not os.path.exists(out):
                continue                      # (already reported above: the second run removed it)
            impl_lines.append("LOADINDEX %s %s %s" % (cid, writer, out))
            model_lines.append("CSV %s %s %d" % (cid, "big" if big else "normal", len(hdr)))
            model_lines += hdr_lines
            model_lines.append("NREC %d" % len(recs))
            model_lines += [rec_line(r) for r in recs]
            cases.append((cid, writer, hdr, recs, len(model_lines)))
    # the same through the BYTES of hand-made files: every spelling of a table and byte-level
    # mutations of it; the model (CsvBytes.create_bytes) says whether create must succeed
    raws = raw_texts(rng, 40 if tier == "quick" else 600)
    rpath = scratch.path("c19-rawparse.txt")
    open(rpath, "w").write("\n".join("CSVTEXT w%d %s" % (j, core.enc_str(t)) for j, (t, _) in enumerate(raws)) + "\n")
    parsed = {}
    for l in core.run_model("csvbytes", rpath):
        f = l.split()
        if f[2] != "OK":
            parsed[f[1]] = None
            continue
        recs, p2 = [], 4
        for _ in range(int(f[3])):
            kf = int(f[p2 + 1])
            p2 += 2
            r = []
            for _ in range(kf):
                n2 = int(f[p2])
                r.append(bytes(int(x) for x in f[p2 + 1:p2 + 1 + n2]))
                p2 += 1 + n2
            recs.append(r)
        parsed[f[1]] = recs
    stats["raw_files"] = len(raws)
    stats["raw_files_malformed"] = sum(1 for v in parsed.values() if not v)
    for j, (t, kind) in enumerate(raws):
        csvp = os.path.join(d, "w%d.csv" % j)
        open(csvp, "wb").write(t)
        recs_all = parsed["w%d" % j]
        want_ok = bool(recs_all)
        for big in (False, True):
            cid = "w%d%s" % (j, "b" if big else "m")
            out = os.path.join(d, cid + ".updog")
            rc, err = run_binary(scratch, ["create"] + (["-b"] if big else []) + ["-o", out, csvp], d, timeout=60)
            if want_ok != (rc == 0):
                bad.append((cid, "updog create%s on the %s file %s: exit %s, but the model's reader (CsvBytes.csv_read) %s it" % (
                    " -b" if big else "", kind, core.show_bytes(t), "status %d" % rc if rc != -9999 else "never (killed)", "accepts" if want_ok else "rejects"), [], recs_all or []))
                continue
            if not want_ok:
                stats["rejected_malformed"] += 1
                continue
            stats["created"] += 1
            impl_lines.append("LOADINDEX %s %s %s" % (cid, "big" if big else "mem", out))
            model_lines.append("CSVRAW %s %s %s" % (cid, "big" if big else "normal", core.enc_str(t)))
            cases.append((cid, "big" if big else "mem", recs_all[0], recs_all[1:], len(model_lines)))
    # the normalised column names come from the model (NORM lines); probes need them, so run the
    # model once for the names, then both sides with the probes
    mpath = scratch.path("c19-model0.txt")
    with open(mpath, "w") as fh:
        fh.write("\n".join(model_lines) + "\n")
    norm = {}
    for l in core.run_model("dp", mpath):
        f = l.split()
        if f[0] == "NORM":
            cols, p = [], 3
            for _ in range(int(f[2])):
                n = int(f[p])
                cols.append(bytes(int(x) for x in f[p + 1:p + 1 + n]))
                p += 1 + n
            norm[f[1]] = cols
    ilines, mlines = list(impl_lines), []
    mi = 0
    for cid, writer, hdr, recs, upto in cases:
        pl = probe_lines(cid, writer, rng.choice(dp.MODES), norm[cid], recs, rng)
        ilines += pl
        mlines += model_lines[mi:upto] + pl
        mi = upto
    ipath, mpath = scratch.path("c19-impl.txt"), scratch.path("c19-model.txt")
    open(ipath, "w").write("\n".join(ilines) + "\n")
    open(mpath, "w").write("\n".join(mlines) + "\n")
    iout, rc, err = core.run_impl(scratch, "dp", ipath, timeout=900)
    if rc != 0:
        raise core.FrameworkError("harness exited with %d: %s" % (rc, err[:1200]))
    mout = core.run_model("dp", mpath, timeout=900)
    impl = {tuple(l.split(" ", 2)[:2]): l.split(" ", 2)[2] for l in iout if l.startswith(("Q ", "SCHEMA "))}
    model = {tuple(l.split(" ", 2)[:2]): l.split(" ", 2)[2] for l in mout if l.startswith(("Q ", "SCHEMA "))}
    created = {l.split()[1]: l.split()[2] for l in mout if l.startswith("CSV ")}
    nq = 0
    for k, b in model.items():
        nq += 1
        if impl.get(k) != b:
            cid = k[1].split(".")[0]
            c = next(x for x in cases if x[0] == cid)
            bad.append((cid, "created index differs from the model's index of the ingested records at %s: implementation %s, model %s" % (k[1], str(impl.get(k))[:150], b[:150]), c[2], c[3]))
    for cid, v in created.items():
        if v != "OK":
            raise core.FrameworkError("the model rejects a well-formed case %s (%s)" % (cid, v))
    # normal and --big produce observationally identical indexes
    for i in range(ncases):
        a = {k[1].split(".", 1)[1]: v for k, v in impl.items() if k[1].startswith("c%dm." % i)}
        b = {k[1].split(".", 1)[1]: v for k, v in impl.items() if k[1].startswith("c%db." % i)}
        if a and b and a != b:
            bad.append(("c%d" % i, "normal and --big mode answer differently on the same CSV", [], []))
    for j in range(len(raws)):
        a = {k[1].split(".", 1)[1]: v for k, v in impl.items() if k[1].startswith("w%dm." % j)}
        b = {k[1].split(".", 1)[1]: v for k, v in impl.items() if k[1].startswith("w%db." % j)}
        if a and b and a != b:
            bad.append(("w%d" % j, "normal and --big mode answer differently on the same file %s" % core.show_bytes(raws[j][0]), [], []))
    # the reader itself and the rune decoding, text by text
    stats["reader_level"] = reader_level(rep, scratch, rng, tier, bad)
    # malformed inputs and a pre-existing output
    pre = os.path.join(d, "pre.updog")
    open(pre, "wb").write(b"precious bytes")
    hpre = sha(pre)
    mal = [("ragged", [b"a", b"b"], [[b"1", b"2"], [b"3"]], None), ("ragged-long", [b"a"], [[b"1"], [b"2", b"3"]], None),
           ("bare-quote", [b"a", b"b"], [[b"1", b"2"]], b'x"y,z\n'), ("unterminated-quote", [b"a"], [[b"1"]], b'"abc\n'), ("empty-file", None, None, None)]
    for nrows in (1000, 1001):
        good = [[b"%d" % i, b"x"] for i in range(nrows)]
        mal.append(("ragged-after-%d-rows" % nrows, [b"a", b"b"], good + [[b"only-one-field"]], None))
    mal.append(("ragged-first-record", [b"a", b"b"], [[b"1"]], None))
    mal.append(("bare-quote-first-record", [b"a", b"b"], [], b'x"y,z\n'))
    for name, hdr, recs, tail in mal:
        if hdr is None:
            csvp = os.path.join(d, "empty.csv")
            open(csvp, "wb").close()
        else:
            csvp, _ = make_csv(scratch, d, "mal-" + name, hdr, recs, raw_tail=tail)
        for big in (False, True):
            rc1, _ = run_binary(scratch, ["create"] + (["-b"] if big else []) + ["-o", pre, csvp], d, timeout=30)
            if rc1 in (0, -9999) or sha(pre) != hpre:
                bad.append((name, "malformed CSV (%s)%s with an existing output: exit %d, existing file %s" % (name, " -b" if big else "", rc1, "unchanged" if sha(pre) == hpre else "MODIFIED"), hdr or [], recs or []))
            fresh = os.path.join(d, "fresh-%s-%d.updog" % (name, big))
            rc2, _ = run_binary(scratch, ["create"] + (["-b"] if big else []) + ["-o", fresh, csvp], d, timeout=30)
            if rc2 in (0, -9999):
                bad.append((name, "malformed CSV (%s)%s: %s" % (name, " -b" if big else "", "exit status 0" if rc2 == 0 else "the command does not exit (killed after 30 s)"), hdr or [], recs or []))
            else:
                stats["rejected_malformed"] += 1
    # header normalisation, rune by rune
    nrunes, nbad_runes = rune_table(rep, scratch, d, rng, tier, bad)
    for cid, msg, hdr, recs in bad[:4]:
        rep.violation("correspondence" if "model" in msg else "monitor:create", "%s: %s" % (cid, msg),
                      {"header": [core.show_bytes(h) for h in hdr], "records": [[core.show_bytes(f) for f in r] for r in recs[:30]], "case": cid})
    rep.coverage.update({
        "evaluations": nq + nrunes + stats["reader_level"]["csv_texts_exhaustive"] + stats["reader_level"]["csv_texts_random"] + stats["reader_level"]["utf8_strings"], "distinct_nontrivial": stats["created"],
        "rule": "CSV files written by encoding/csv, and hand-written style files that quote only where the format needs it (unquoted leading/trailing blanks and tabs), from generated records (0..60, one of 1500 records, and files with exactly 1000 / 1001 / 2000 distinct (column,value) pairs; fields with quotes, commas, newlines, NUL, non-ASCII, invalid UTF-8, empty; headers with upper case, spaces, digits, U+212A, U+0130, CJK) x {normal, -b}: exit status, `updog schema`, second run on the existing output (must fail, SHA-256 unchanged), created index vs the model's index of the ingested records (schema; per-record probe on all its values grouped by the id column; NOT-probe grouped by (column,id)); both modes equal; hand-made FILES (random spellings of a table: optional quoting, LF / CR LF, blank lines, no final line end; byte-level mutations) whose fate the byte-level model decides (CsvBytes.create_bytes: csv_read, utf8_decode, normalisation, ingest); encoding/csv with create.go's configuration vs csv_read on every text of length <= %d over {a, quote, comma, LF, CR} and on random written / mutated tables; Go's rune decoding vs utf8_decode on every byte, lead x second byte, boundary third / fourth bytes and random strings; malformed CSVs (ragged, bare quote, unterminated quote, empty file) x existing/absent output; header normalisation of %d code points vs normalize_rune. Non-trivial = indexes created and compared." % (stats["reader_level"]["max_exhaustive_length"], nrunes),
        "distribution": stats, "failures": len(bad), "exhaustive": tier == "thorough",
        "samples": [[core.show_bytes(h) for h in cases[0][2]]] if cases else [],
    })
    rep.assumptions += ["encoding/csv and Go's UTF-8 decoding are modelled (CsvBytes.v) and compared text by text with the real ones (exhaustively for short texts over {a, quote, comma, LF, CR}); the record-level cases start from the records and runes Go yields",
                        "strings.ToLower is modelled rune by rune (normalize_rune), compared for every code point in the thorough tier"]


def rune_table(rep, scratch, d, rng, tier, bad):
    """Columns named a<rune>b<letters>: the created schema must list exactly the model's
    normalised names."""
    if tier == "thorough":
        cps = [c for c in range(0x110000) if not (0xD800 <= c <= 0xDFFF)]
    else:
        cps = list(range(0, 0x250)) + [0x212A, 0x0130, 0x0131, 0x1E9E, 0x2126, 0x212B, 0xFF21, 0xFF41, 0x10400, 0x1F600, 0xFFFD, 0x10FFFF] + [rng.randrange(0x250, 0x110000) for _ in range(1500)]
        cps = [c for c in cps if not (0xD800 <= c <= 0xDFFF)]
    n = 0
    chunk = 4000
    for start in range(0, len(cps), chunk):
        part = cps[start:start + chunk]

        def letters(i):
            s = ""
            i += 1
            while i:
                i, r = divmod(i - 1, 26)
                s = chr(97 + r) + s
            return s
        hdr = [("a" + chr(c) + "b" + letters(i)).encode("utf-8") for i, c in enumerate(part)]
        recs = [[b"1"] * len(hdr)]
        csvp, hdr_lines = make_csv(scratch, d, "runes%d" % start, hdr, recs)
        out = os.path.join(d, "runes%d.updog" % start)
        rc, err = run_binary(scratch, ["create", "-o", out, csvp], d)
        if rc != 0:
            bad.append(("runes", "updog create failed on the rune-table CSV: %s" % err[-200:], [], []))
            continue
        cid = "ru%d" % start
        il = ["LOADINDEX %s mem %s" % (cid, out), "SCHEMA %s.sch %s mem" % (cid, cid)]
        ml = ["CSV %s normal %d" % (cid, len(hdr))] + hdr_lines + ["NREC 1", rec_line(recs[0]), "SCHEMA %s.sch %s mem" % (cid, cid)]
        ip, mp = scratch.path("c19-ri.txt"), scratch.path("c19-rm.txt")
        open(ip, "w").write("\n".join(il) + "\n")
        open(mp, "w").write("\n".join(ml) + "\n")
        io, rc2, e2 = core.run_impl(scratch, "dp", ip, timeout=600)
        mo = core.run_model("dp", mp, timeout=600)
        a = next((l for l in io if l.startswith("SCHEMA")), None)
        b = next((l for l in mo if l.startswith("SCHEMA ")), None)
        n += len(part)
        if a != b:
            # find the first differing column name
            fa, fb = (a or "").split(), (b or "").split()
            k = next((i for i in range(min(len(fa), len(fb))) if fa[i] != fb[i]), 0)
            bad.append(("runes", "header normalisation differs from normalize_rune for some code point in U+%04X..U+%04X (first difference near token %d: %s vs %s)" % (
                part[0], part[-1], k, " ".join(fa[k - 3:k + 6]), " ".join(fb[k - 3:k + 6])), [], []))
        os.remove(out)
    return n, 0

"""C01 — total count = number of satisfying rows (model Index.v, theorems Props/C01.v)."""
from . import dpcheck

PID = "C01"


def run(rep, scratch, tier, seed, replay=None):
    dpcheck.run_focus(rep, scratch, tier, seed, replay, "count", PID)

"""gRPC / wire-level checks (harness/wire.go vs Adapters.serve): server process management,
wire-tree generators, comparison.  Shared by C13 and C14."""
import os, random, socket, subprocess, time
from . import core, dp

COLS = [b"a", b"b", b"c", b"v", b"v1"]      # v / v1: one name a prefix of the other, values lining up


def dataset():
    rows = []
    for i in range(40):
        r = {b"a": b"%d" % (i % 3), b"b": [b"x", b"y", b"\xc3\xa9", b""][i % 4]}
        if i % 5:
            r[b"c"] = b"v%d" % (i % 7)
        r[b"v"] = [b"1a", b"1", b"a"][i % 3]
        if i % 4:
            r[b"v1"] = [b"a", b"", b"1a"][i % 3]
        rows.append(r)
    rows.append({})
    return dp.Dataset("w", rows, "wire")


def enc_w(t):
    if t[0] in ("U", "N0"):
        return t[0]
    if t[0] == "E":
        return "E %s %s %d" % (core.enc_str(t[1]), core.enc_str(t[2]), t[3])
    if t[0] == "N":
        return "N " + enc_w(t[1])
    return "%s %d%s" % (t[0], len(t[1]), "".join(" " + enc_w(x) for x in t[1]))


def enc_q(qid, t, gb):
    return "WQ %d %s GB %d%s" % (qid, "NONE" if t is None else "X " + enc_w(t), len(gb), "".join(" " + core.enc_str(c) for c in gb))


def rand_valid(rng, depth, ds):
    vals = ds.values()
    if depth <= 0 or rng.random() < 0.3:
        c = rng.choice(COLS)
        return ("E", c, rng.choice(sorted(vals[c]) + [b"zz"]), rng.choice([0, 0, 0, 2]))
    k = rng.random()
    if k < 0.25:
        return ("N", rand_valid(rng, depth - 1, ds))
    return ("A" if k < 0.6 else "O", [rand_valid(rng, depth - 1, ds) for _ in range(rng.randrange(0, 4))])


def positions(t, path=()):
    yield path
    if t[0] == "N":
        yield from positions(t[1], path + (0,))
    elif t[0] in ("A", "O"):
        for i, x in enumerate(t[1]):
            yield from positions(x, path + (i,))


def replace_at(t, path, new):
    if not path:
        return new
    if t[0] == "N":
        return ("N", replace_at(t[1], path[1:], new))
    xs = list(t[1])
    xs[path[0]] = replace_at(xs[path[0]], path[1:], new)
    return (t[0], xs)


def free_port():
    s = socket.socket()
    s.bind(("127.0.0.1", 0))
    p = s.getsockname()[1]
    s.close()
    return p


class Server:
    def __init__(self, scratch, index_file, cache=True, preload=False, race=False):
        last = ""
        for attempt in range(4):        # another process may grab the port between probing and listening
            self.port = free_port()
            self.addr = "127.0.0.1:%d" % self.port
            cmd = [scratch.updog_binary(race=race), "server", "-l", self.addr, "-d", "127.0.0.1:0", "-f", index_file]
            if not cache:
                cmd.append("--enable-cache=false")
            if preload:
                cmd.append("-p")
            self.log = open(scratch.path("server-%d.log" % self.port), "wb")
            self.proc = subprocess.Popen(cmd, cwd=scratch.dir, env=core.GOENV, stdout=self.log, stderr=subprocess.STDOUT)
            t0 = time.time()
            while time.time() - t0 < 30:
                if self.proc.poll() is not None:
                    break
                try:
                    socket.create_connection(("127.0.0.1", self.port), timeout=0.2).close()
                    return
                except OSError:
                    time.sleep(0.05)
            last = open(self.log.name, "rb").read()[-1500:].decode("utf-8", "replace")
            self.stop()
            if "address already in use" not in last:
                break
        raise core.FrameworkError("updog server did not start: %s" % last)

    def alive(self):
        return self.proc.poll() is None

    def exit_status(self):
        return self.proc.poll()

    def stop(self):
        if self.proc.poll() is None:
            self.proc.kill()
            self.proc.wait()
        self.log.close()

    def output(self):
        return open(self.log.name, "rb").read().decode("utf-8", "replace")


def make_index(scratch, ds, name):
    path = scratch.path(name + ".txt")
    out = scratch.path(name + ".updog")
    with open(path, "w") as fh:
        fh.write("\n".join(ds.lines()) + "\n")
    p = subprocess.run([scratch.harness(), "mkindex", path, out], cwd=scratch.dir, env=core.GOENV, capture_output=True, timeout=120)
    if p.returncode != 0:
        raise core.FrameworkError("mkindex failed: " + p.stderr.decode("utf-8", "replace")[-500:])
    return out


def run_wire(scratch, ds, reqs, mode, index_file, tag, extra=()):
    """reqs: list of (rid, [WQ lines]).  Returns (impl {rid: line}, model {rid: line}, rc, err)."""
    lines = ds.lines()
    for rid, qs in reqs:
        lines.append("REQ %s %d" % (rid, len(qs)))
        lines += qs
    path = scratch.path("wire-%s.txt" % tag)
    with open(path, "w") as fh:
        fh.write("\n".join(lines) + "\n")
    p = subprocess.run([scratch.harness(), "wire", path, mode, index_file] + list(extra), cwd=scratch.dir, env=core.GOENV, capture_output=True, timeout=900)
    impl = {}
    for l in p.stdout.decode("utf-8", "replace").splitlines():
        f = l.split(" ", 2)
        if f[0] == "REQ":
            impl[f[1]] = f[2] if len(f) > 2 else ""
    mlines = core.run_model("wire", path)
    model = {}
    for l in mlines:
        f = l.split(" ", 2)
        if f[0] == "REQ":
            model[f[1]] = f[2] if len(f) > 2 else ""
    return impl, model, p.returncode, p.stderr.decode("utf-8", "replace"), lines

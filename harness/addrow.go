package main

import (
	"fmt"
	"os"
	"path/filepath"
	"sort"
	"sync"

	"github.com/akrennmair/updog"
	"go.etcd.io/bbolt"
)

// concRow is the j-th row of a concurrent-AddRow case (the Python side builds the same rows).
func concRow(j int) map[string]string {
	if j%11 == 10 {
		return map[string]string{} // a row without columns: it still takes a row id
	}
	r := map[string]string{"tag": fmt.Sprintf("t%06d", j), "c": fmt.Sprintf("v%d", j%7)}
	if j%5 != 0 {
		r["d"] = fmt.Sprintf("w%d", j%3)
	}
	return r
}

type rowAdder interface {
	AddRow(values map[string]string) (uint32, error)
	Flush() error
}

// addRowCase: nthreads goroutines add rows 0..total-1 (row j by goroutine j % nthreads, in
// increasing j per goroutine), then Flush. Prints the id returned for every row and registers
// the flushed file as the built index of dataset cid.
func (s *dpState) addRowCase(cid, writer string, nthreads, total int) {
	s.nfile++
	file := filepath.Join(s.dir, fmt.Sprintf("conc%d-%s.updog", s.nfile, writer))
	outcome, ids := addRowWork(file, writer, nthreads, total, 0)
	s.addRowFinish(cid, writer, file, outcome, ids)
}

// addRowPair: two writer instances filled at the same time (nthreads goroutines each); the
// second one gets rows off, off+1, ... so that the two hold different values.
func (s *dpState) addRowPair(cidA, writerA, cidB, writerB string, nthreads, total, off int) {
	s.nfile += 2
	fileA := filepath.Join(s.dir, fmt.Sprintf("conc%d-%s.updog", s.nfile-1, writerA))
	fileB := filepath.Join(s.dir, fmt.Sprintf("conc%d-%s.updog", s.nfile, writerB))
	var wg sync.WaitGroup
	var oA, oB string
	var idsA, idsB []int64
	wg.Add(2)
	go func() { defer wg.Done(); oA, idsA = addRowWork(fileA, writerA, nthreads, total, 0) }()
	go func() { defer wg.Done(); oB, idsB = addRowWork(fileB, writerB, nthreads, total, off) }()
	wg.Wait()
	s.addRowFinish(cidA, writerA, fileA, oA, idsA)
	s.addRowFinish(cidB, writerB, fileB, oB, idsB)
}

func addRowWork(file, writer string, nthreads, total, off int) (outcome string, ids []int64) {
	ids = make([]int64, total)
	outcome = "OK"
	_, ok := guard(func() {
		var w rowAdder
		var cleanup func()
		switch writer {
		case "mem":
			w = updog.NewIndexWriter(file)
		case "big":
			db, err := bbolt.Open(file, 0644, nil)
			if err != nil {
				fatal("bbolt open: %v", err)
			}
			tmp, err := bbolt.Open(file+".tmp", 0600, nil)
			if err != nil {
				fatal("bbolt open: %v", err)
			}
			bw, err := updog.NewBigIndexWriter(db, tmp)
			if err != nil {
				outcome = "ERR"
				return
			}
			w = bw
			cleanup = func() { db.Close(); tmp.Close(); os.Remove(file + ".tmp") }
		}
		var wg sync.WaitGroup
		var mu sync.Mutex
		start := make(chan struct{})
		for g := 0; g < nthreads; g++ {
			wg.Add(1)
			go func(g int) {
				defer wg.Done()
				<-start
				for j := g; j < total; j += nthreads {
					id, err := w.AddRow(concRow(j + off))
					if err != nil {
						mu.Lock()
						outcome = "ERR"
						mu.Unlock()
						ids[j] = -1
						continue
					}
					ids[j] = int64(id)
				}
			}(g)
		}
		close(start)
		wg.Wait()
		if err := w.Flush(); err != nil {
			outcome = "ERR"
		}
		if cleanup != nil {
			cleanup()
		}
	})
	if !ok {
		outcome = "PANIC"
	}
	return outcome, ids
}

func (s *dpState) addRowFinish(cid, writer, file, outcome string, ids []int64) {
	total := len(ids)
	sorted := append([]int64(nil), ids...)
	sort.Slice(sorted, func(i, j int) bool { return sorted[i] < sorted[j] })
	perm := "PERMUTATION"
	for i, v := range sorted {
		if v != int64(i) {
			perm = fmt.Sprintf("NOT-A-PERMUTATION(position %d holds %d)", i, v)
			break
		}
	}
	pr("ADDROW %s %s %s %d", cid, outcome, perm, total)
	for _, id := range ids {
		pr(" %d", id)
	}
	pr("\n")
	b := &builtIndex{file: file, outcome: outcome}
	if outcome != "OK" {
		b.file = ""
	}
	s.built[cid+"/"+writer] = b
	s.datasets[cid] = &dataset{id: cid}
}

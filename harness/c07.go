package main

import (
	"strings"
	"sync/atomic"
	"time"

	"github.com/RoaringBitmap/roaring"
	"github.com/akrennmair/updog"
)

func init() { commands["c07"] = c07 }

// ctr is a counter metric that can be armed to block its next Inc (so that a second cache
// call can be started while the first one is inside the cache).
type ctr struct {
	n       uint64
	armed   int32
	entered chan struct{}
	release chan struct{}
}

func newCtr() *ctr { return &ctr{entered: make(chan struct{}, 1), release: make(chan struct{})} }

func (c *ctr) Inc() {
	atomic.AddUint64(&c.n, 1)
	if atomic.CompareAndSwapInt32(&c.armed, 1, 0) {
		c.entered <- struct{}{}
		<-c.release
	}
}

const bmMarker = uint32(1) << 31

// mkBitmap builds a bitmap with nelems even numbers plus one marker element that
// carries the bitmap's identity in its contents.
func mkBitmap(nelems int, bmid int) *roaring.Bitmap {
	base, ok := bmBase[nelems]
	if !ok {
		base = roaring.New()
		for j := 0; j < nelems; j++ {
			base.Add(uint32(2 * j))
		}
		bmBase[nelems] = base
	}
	bm := base.Clone()
	bm.Add(bmMarker + uint32(bmid))
	return bm
}

var bmBase = map[int]*roaring.Bitmap{}

func bmIdentity(bm *roaring.Bitmap) int {
	if bm == nil || bm.IsEmpty() {
		return -1
	}
	return int(bm.Maximum() - bmMarker)
}

// calibrateOverhead finds, by behaviour only, the number of bytes the cache accounts
// per entry on top of GetSizeInBytes: the smallest capacity at which a single entry is
// retrievable right after it was stored, minus its size.
func calibrateOverhead() int {
	bm := mkBitmap(10, 1)
	sz := int(bm.GetSizeInBytes())
	fits := func(max int) bool {
		c := updog.NewLRUCache(uint64(max))
		c.Put(7, bm)
		_, ok := c.Get(7)
		return ok
	}
	lo, hi := 0, sz+1<<16
	if !fits(hi) {
		return -1
	}
	for lo < hi {
		mid := (lo + hi) / 2
		if fits(mid) {
			hi = mid
		} else {
			lo = mid + 1
		}
	}
	return lo - sz
}

func c07(args []string) {
	lines := readLines(args[0])
	pr("OVH %d\n", calibrateOverhead())
	var (
		cache      *updog.LRUCache
		g, p, h, m *ctr
	)
	finish := func() {
		if cache != nil {
			pr("CNT %d %d %d %d\n", g.n, p.n, h.n, m.n)
		}
	}
	for _, l := range lines {
		t := newToks(l)
		if !t.more() {
			continue
		}
		switch t.next() {
		case "CASE":
			finish()
			id := t.next()
			t.next() // CAP
			max := atou(t.next())
			g, p, h, m = newCtr(), newCtr(), newCtr(), newCtr()
			metrics := &updog.CacheMetrics{CacheHit: h, CacheMiss: m, GetCall: g, PutCall: p}
			if t.more() && t.next() == "MASK" {
				// only some of the four counters are configured (bits: 1 hit, 2 miss, 4 get, 8 put);
				// MASK -1: no metrics option at all
				mask := t.int()
				metrics = &updog.CacheMetrics{}
				if mask >= 0 {
					if mask&1 != 0 {
						metrics.CacheHit = h
					}
					if mask&2 != 0 {
						metrics.CacheMiss = m
					}
					if mask&4 != 0 {
						metrics.GetCall = g
					}
					if mask&8 != 0 {
						metrics.PutCall = p
					}
					cache = updog.NewLRUCache(max, updog.WithCacheMetrics(metrics))
				} else {
					cache = updog.NewLRUCache(max)
				}
				pr("CASE %s\n", id)
				continue
			}
			cache = updog.NewLRUCache(max, updog.WithCacheMetrics(metrics))
			pr("CASE %s\n", id)
		case "P":
			key, nelems, bmid := atou(t.next()), t.int(), t.int()
			bm := mkBitmap(nelems, bmid)
			pr("PUT %d\n", bm.GetSizeInBytes())
			cache.Put(key, bm)
		case "G":
			key := atou(t.next())
			bm, ok := cache.Get(key)
			if ok {
				pr("HIT %d\n", bmIdentity(bm))
			} else {
				pr("MISS\n")
			}
		case "OV":
			// OV <op A> | <op B>: B is started while A is inside the cache (A's call counter
			// blocks until B has returned or 300 ms have passed); prints A's then B's result
			rest := strings.Join(t.f[t.i:], " ")
			parts := strings.SplitN(rest, " | ", 2)
			run := func(op string) string {
				ot := newToks(op)
				switch ot.next() {
				case "P":
					key, nelems, bmid := atou(ot.next()), ot.int(), ot.int()
					bm := mkBitmap(nelems, bmid)
					cache.Put(key, bm)
					return "PUT " + itoa(int(bm.GetSizeInBytes()))
				case "G":
					bm, ok := cache.Get(atou(ot.next()))
					if ok {
						return "HIT " + itoa(bmIdentity(bm))
					}
					return "MISS"
				}
				fatal("c07: bad op %q", op)
				return ""
			}
			gate := g
			if strings.HasPrefix(parts[0], "P") {
				gate = p
			}
			atomic.StoreInt32(&gate.armed, 1)
			ra, rb := make(chan string, 1), make(chan string, 1)
			go func() { ra <- run(parts[0]) }()
			entered := false
			select {
			case <-gate.entered:
				entered = true
			case <-time.After(2 * time.Second):
			}
			go func() { rb <- run(parts[1]) }()
			var resB string
			gotB := false
			select {
			case resB = <-rb:
				gotB = true
			case <-time.After(300 * time.Millisecond):
			}
			if atomic.SwapInt32(&gate.armed, 0) == 0 {
				// the gate was taken: A is blocked in it (or about to be)
				if !entered {
					<-gate.entered
				}
				gate.release <- struct{}{}
			}
			resA := <-ra
			if !gotB {
				resB = <-rb
			}
			pr("%s\n%s\n", resA, resB)
		default:
			fatal("c07: bad line %q", l)
		}
	}
	finish()
}

package main

import (
	"github.com/RoaringBitmap/roaring"
	"github.com/akrennmair/updog"
)

func init() { commands["c07"] = c07 }

type ctr struct{ n uint64 }

func (c *ctr) Inc() { c.n++ }

const bmMarker = uint32(1) << 31

// mkBitmap builds a bitmap with nelems even numbers plus one marker element that
// carries the bitmap's identity in its contents.
func mkBitmap(nelems int, bmid int) *roaring.Bitmap {
	base, ok := bmBase[nelems]
	if !ok {
		base = roaring.New()
		for j := 0; j < nelems; j++ {
			base.Add(uint32(2 * j))
		}
		bmBase[nelems] = base
	}
	bm := base.Clone()
	bm.Add(bmMarker + uint32(bmid))
	return bm
}

var bmBase = map[int]*roaring.Bitmap{}

func bmIdentity(bm *roaring.Bitmap) int {
	if bm == nil || bm.IsEmpty() {
		return -1
	}
	return int(bm.Maximum() - bmMarker)
}

// calibrateOverhead finds, by behaviour only, the number of bytes the cache accounts
// per entry on top of GetSizeInBytes: the smallest capacity at which a single entry is
// retrievable right after it was stored, minus its size.
func calibrateOverhead() int {
	bm := mkBitmap(10, 1)
	sz := int(bm.GetSizeInBytes())
	fits := func(max int) bool {
		c := updog.NewLRUCache(uint64(max))
		c.Put(7, bm)
		_, ok := c.Get(7)
		return ok
	}
	lo, hi := 0, sz+1<<16
	if !fits(hi) {
		return -1
	}
	for lo < hi {
		mid := (lo + hi) / 2
		if fits(mid) {
			hi = mid
		} else {
			lo = mid + 1
		}
	}
	return lo - sz
}

func c07(args []string) {
	lines := readLines(args[0])
	pr("OVH %d\n", calibrateOverhead())
	var (
		cache      *updog.LRUCache
		g, p, h, m *ctr
	)
	finish := func() {
		if cache != nil {
			pr("CNT %d %d %d %d\n", g.n, p.n, h.n, m.n)
		}
	}
	for _, l := range lines {
		t := newToks(l)
		if !t.more() {
			continue
		}
		switch t.next() {
		case "CASE":
			finish()
			id := t.next()
			t.next() // CAP
			max := atou(t.next())
			g, p, h, m = &ctr{}, &ctr{}, &ctr{}, &ctr{}
			cache = updog.NewLRUCache(max, updog.WithCacheMetrics(&updog.CacheMetrics{
				CacheHit: h, CacheMiss: m, GetCall: g, PutCall: p}))
			pr("CASE %s\n", id)
		case "P":
			key, nelems, bmid := atou(t.next()), t.int(), t.int()
			bm := mkBitmap(nelems, bmid)
			pr("PUT %d\n", bm.GetSizeInBytes())
			cache.Put(key, bm)
		case "G":
			key := atou(t.next())
			bm, ok := cache.Get(key)
			if ok {
				pr("HIT %d\n", bmIdentity(bm))
			} else {
				pr("MISS\n")
			}
		default:
			fatal("c07: bad line %q", l)
		}
	}
	finish()
}

package main

import (
	"context"
	"fmt"
	"os"
	"path/filepath"
	"strings"
	"time"

	"github.com/akrennmair/updog"
	"github.com/akrennmair/updog/internal/convert"
	proto "github.com/akrennmair/updog/proto/updog/v1"
	"google.golang.org/grpc"
	"google.golang.org/grpc/credentials/insecure"
)

func init() {
	commands["wire"] = wireCmd
	commands["mkindex"] = mkindexCmd
}

// wire trees: U (expression without value) | E col val ph | N0 (Not without operand) | N e |
// A k e.. | O k e..   ; a query: <id> (NONE | X <wexpr>) GB m cols..
func (t *toks) wexpr() *proto.Query_Expression {
	switch t.next() {
	case "U":
		return &proto.Query_Expression{}
	case "E":
		c := t.str()
		v := t.str()
		ph := t.int()
		return &proto.Query_Expression{Value: &proto.Query_Expression_Eq{Eq: &proto.Query_Expression_Equal{Column: c, Value: v, Placeholder: int32(ph)}}}
	case "N0":
		return &proto.Query_Expression{Value: &proto.Query_Expression_Not_{Not: &proto.Query_Expression_Not{}}}
	case "N":
		return &proto.Query_Expression{Value: &proto.Query_Expression_Not_{Not: &proto.Query_Expression_Not{Expr: t.wexpr()}}}
	case "A":
		k := t.int()
		es := []*proto.Query_Expression{}
		for i := 0; i < k; i++ {
			es = append(es, t.wexpr())
		}
		return &proto.Query_Expression{Value: &proto.Query_Expression_And_{And: &proto.Query_Expression_And{Exprs: es}}}
	case "O":
		k := t.int()
		es := []*proto.Query_Expression{}
		for i := 0; i < k; i++ {
			es = append(es, t.wexpr())
		}
		return &proto.Query_Expression{Value: &proto.Query_Expression_Or_{Or: &proto.Query_Expression_Or{Exprs: es}}}
	}
	fatal("bad wire tree")
	return nil
}

func (t *toks) wquery() *proto.Query {
	q := &proto.Query{Id: int32(t.int())}
	switch t.next() {
	case "NONE":
	case "X":
		q.Expr = t.wexpr()
	default:
		fatal("bad wire query")
	}
	if t.next() != "GB" {
		fatal("expected GB")
	}
	m := t.int()
	for i := 0; i < m; i++ {
		q.GroupBy = append(q.GroupBy, t.str())
	}
	return q
}

func fmtWireResults(rs []*proto.Result) string {
	var sb strings.Builder
	fmt.Fprintf(&sb, "OK %d", len(rs))
	for _, r := range rs {
		fmt.Fprintf(&sb, " | %d %d %d", r.GetQueryId(), r.GetTotalCount(), len(r.GetGroups()))
		for _, g := range r.GetGroups() {
			fmt.Fprintf(&sb, " %d", len(g.GetFields()))
			for _, f := range g.GetFields() {
				sb.WriteString(" " + fmtStr(f.GetColumn()) + " " + fmtStr(f.GetValue()))
			}
			fmt.Fprintf(&sb, " %d", g.GetCount())
		}
	}
	return sb.String()
}

// serveInProcess does what server.Query does, with the real convert and Execute.
func serveInProcess(ix *updog.Index, req *proto.QueryRequest) string {
	var out []*proto.Result
	res := ""
	_, ok := guard(func() {
		for i, pbq := range req.Queries {
			q := convert.ToQuery(pbq)
			qid := pbq.Id
			if qid == 0 {
				qid = int32(i + 1)
			}
			result, err := ix.Execute(q)
			if err != nil {
				res = "ERR"
				return
			}
			out = append(out, convert.ToProtobufResult(result, qid))
		}
	})
	if !ok {
		return "PANIC"
	}
	if res != "" {
		return res
	}
	return fmtWireResults(out)
}

// wire <casefile> <mode: inproc | addr host:port> <index file>
func wireCmd(args []string) {
	lines := readLines(args[0])
	mode, idxFile := args[1], args[2]
	var ix *updog.Index
	var client proto.QueryServiceClient
	if mode == "inproc" {
		cp := idxFile + ".wirecopy"
		copyFile(idxFile, cp)
		defer os.Remove(cp)
		var err error
		opts := []updog.IndexOption{updog.WithCache(updog.NewLRUCache(1 << 20))}
		if len(args) > 3 && args[3] == "preload" {
			opts = append(opts, updog.WithPreloadedData())
		}
		ix, err = updog.OpenIndex(cp, opts...)
		if err != nil {
			fatal("open index: %v", err)
		}
		defer ix.Close()
	} else {
		conn, err := grpc.NewClient(mode, grpc.WithTransportCredentials(insecure.NewCredentials()))
		if err != nil {
			fatal("dial: %v", err)
		}
		defer conn.Close()
		client = proto.NewQueryServiceClient(conn)
	}
	hangs := 0 // in-process requests that were never answered
	downs := 0 // consecutive requests without an answer; after 3 the server is taken for dead
	for i := 0; i < len(lines); i++ {
		t := newToks(lines[i])
		if !t.more() {
			continue
		}
		switch t.next() {
		case "REQ":
			rid := t.next()
			nq := t.int()
			req := &proto.QueryRequest{}
			for j := 0; j < nq; j++ {
				i++
				qt := newToks(lines[i])
				if qt.next() != "WQ" {
					fatal("expected WQ")
				}
				req.Queries = append(req.Queries, qt.wquery())
			}
			if ix != nil {
				// in-process: a request that is not answered within 10 s counts as a hang (its
				// goroutine is abandoned); after three of them the rest is not attempted
				if hangs >= 3 {
					pr("REQ %s HANG (not attempted: three earlier requests were never answered)\n", rid)
					continue
				}
				ch := make(chan string, 1)
				go func() { ch <- serveInProcess(ix, req) }()
				select {
				case r := <-ch:
					pr("REQ %s %s\n", rid, r)
				case <-time.After(10 * time.Second):
					hangs++
					pr("REQ %s HANG\n", rid)
				}
				continue
			}
			if downs >= 3 {
				pr("REQ %s DOWN server gave no answer to the 3 preceding requests\n", rid)
				continue
			}
			ctx, cancel := context.WithTimeout(context.Background(), 20*time.Second)
			resp, err := client.Query(ctx, req)
			cancel()
			if err != nil {
				if strings.Contains(err.Error(), "Unavailable") || strings.Contains(err.Error(), "connection") || strings.Contains(err.Error(), "DeadlineExceeded") {
					pr("REQ %s DOWN %s\n", rid, strings.ReplaceAll(err.Error(), "\n", " "))
					downs++
				} else {
					pr("REQ %s ERR\n", rid)
					downs = 0
				}
				continue
			}
			downs = 0
			pr("REQ %s %s\n", rid, fmtWireResults(resp.GetResults()))
		case "DATASET":
			_, i = readDataset(lines, i)
		default:
			fatal("wire: bad line %q", lines[i])
		}
	}
}

// mkindex <casefile with one DATASET> <out file>: writes the dataset with the in-memory writer.
func mkindexCmd(args []string) {
	lines := readLines(args[0])
	for i := 0; i < len(lines); i++ {
		if strings.HasPrefix(lines[i], "DATASET") {
			d, _ := readDataset(lines, i)
			out, _ := filepath.Abs(args[1])
			os.Remove(out)
			if b := writeIndex(out, "mem", d.rows); b.outcome != "OK" {
				fatal("mkindex: %s", b.outcome)
			}
			pr("MKINDEX OK %d\n", len(d.rows))
			return
		}
	}
	fatal("no dataset")
}

package main

import (
	"time"
	"fmt"
	"math/rand"
	"sync"

	"github.com/RoaringBitmap/roaring"
	"github.com/akrennmair/updog"
)

type concQuery struct {
	line string
	gb   []string
	want string
}

// concRun: n goroutines execute queries from the pool on ONE handle; every result must be
// the one a fresh uncached handle returned sequentially. Built with -race by the check.
func (s *dpState) concRun(cid, ds, writer, mode string, capv int64, nthreads, perThread int, seed int64, pool []concQuery) {
	h := s.startHistory(cid, ds, writer, mode, capv)
	if h.ix == nil {
		pr("CONC %s %s\n", cid, h.oc)
		return
	}
	// sequential reference on the fresh handle (also printed for the model comparison)
	for i := range pool {
		pool[i].want = execQuery(h.fresh, &updog.Query{Expr: t2expr(pool[i].line), GroupBy: pool[i].gb})
	}
	refSchema := fmtSchema(h.fresh.GetSchema())
	var wg sync.WaitGroup
	var mu sync.Mutex
	wrong := ""
	panics := 0
	total := 0
	for g := 0; g < nthreads; g++ {
		wg.Add(1)
		go func(g int) {
			defer wg.Done()
			rng := rand.New(rand.NewSource(seed*1000 + int64(g)))
			for k := 0; k < perThread; k++ {
				i := rng.Intn(len(pool))
				var got string
				if k%17 == 3 {
					var sch *updog.Schema
					if _, ok := guard(func() { sch = h.ix.GetSchema() }); !ok {
						got = "PANIC"
					} else if fmtSchema(sch) != refSchema {
						got = "SCHEMA-DIFF"
					} else {
						continue
					}
				} else {
					got = execQuery(h.ix, &updog.Query{Expr: t2expr(pool[i].line), GroupBy: pool[i].gb})
					if got == pool[i].want {
						mu.Lock()
						total++
						mu.Unlock()
						continue
					}
				}
				mu.Lock()
				if got == "PANIC" {
					panics++
				}
				if wrong == "" {
					wrong = fmt.Sprintf("goroutine %d step %d query %d: got %s want %s", g, k, i, got, pool[i].want)
				}
				mu.Unlock()
			}
		}(g)
	}
	if !waitTimeout(&wg, 90*time.Second) {
		pr("CONC %s HANG goroutines executing queries concurrently did not return within 90 s\n", cid)
		return
	}
	if wrong != "" {
		pr("CONC %s WRONG %d %s\n", cid, panics, wrong)
	} else {
		pr("CONC %s OK %d\n", cid, total)
	}
	s.finishHistory(h)
}

// lruDirect hammers one LRUCache from n goroutines. Every bitmap carries (key, serial) in its
// contents; a hit under key k must return a bitmap that was stored under k.
func lruDirect(cid string, capv uint64, nthreads, perThread, nkeys int, seed int64) {
	c := updog.NewLRUCache(capv)
	var wg sync.WaitGroup
	var mu sync.Mutex
	bad := ""
	panics := 0
	for g := 0; g < nthreads; g++ {
		wg.Add(1)
		go func(g int) {
			defer wg.Done()
			rng := rand.New(rand.NewSource(seed*7919 + int64(g)))
			for k := 0; k < perThread; k++ {
				key := uint64(rng.Intn(nkeys))
				msg := ""
				_, ok := guard(func() {
					if rng.Intn(2) == 0 {
						bm := roaring.New()
						bm.Add(uint32(key))
						bm.Add(uint32(1000000 + g*100000 + k))
						for x := 0; x < rng.Intn(50); x++ {
							bm.Add(uint32(2000000 + x))
						}
						c.Put(key, bm)
					} else {
						bm, hit := c.Get(key)
						if hit && (bm == nil || !bm.Contains(uint32(key)) || bm.Minimum() != uint32(key)) {
							msg = fmt.Sprintf("Get(%d) returned a bitmap stored under another key", key)
						}
					}
				})
				if !ok || msg != "" {
					mu.Lock()
					if !ok {
						panics++
						msg = "panic"
					}
					if bad == "" {
						bad = msg
					}
					mu.Unlock()
				}
			}
		}(g)
	}
	if !waitTimeout(&wg, 90*time.Second) {
		pr("LRUD %s HANG goroutines using the cache concurrently did not return within 90 s\n", cid)
		return
	}
	if bad != "" {
		pr("LRUD %s WRONG %d %s\n", cid, panics, bad)
	} else {
		pr("LRUD %s OK\n", cid)
	}
}

// concHangs counts concurrent runs that never finished; after two of them the remaining runs
// give up at once (each would cost the full watchdog time and the abandoned goroutines pile up).
var concHangs int

// waitTimeout waits for the group; false if it is not done in time (the goroutines are abandoned).
func waitTimeout(wg *sync.WaitGroup, d time.Duration) bool {
	if concHangs >= 2 {
		d = 2 * time.Second
	}
	done := make(chan struct{})
	go func() { wg.Wait(); close(done) }()
	select {
	case <-done:
		return true
	case <-time.After(d):
		concHangs++
		return false
	}
}

package main

import (
	"fmt"
	"runtime"
	"strings"
	"time"

	"github.com/akrennmair/updog/internal/queryparser"
	proto "github.com/akrennmair/updog/proto/updog/v1"
	gproto "google.golang.org/protobuf/proto"
)

func init() { commands["parse"] = parseCmd }

// ---- trees in the prefix syntax: E <col> <val> <ph> | N e | A k e.. | O k e..

func (t *toks) pexpr() *proto.Query_Expression {
	switch t.next() {
	case "E":
		c := t.str()
		v := t.str()
		ph := t.int()
		return &proto.Query_Expression{Value: &proto.Query_Expression_Eq{Eq: &proto.Query_Expression_Equal{Column: c, Value: v, Placeholder: int32(ph)}}}
	case "N":
		return &proto.Query_Expression{Value: &proto.Query_Expression_Not_{Not: &proto.Query_Expression_Not{Expr: t.pexpr()}}}
	case "A":
		k := t.int()
		var es []*proto.Query_Expression
		for i := 0; i < k; i++ {
			es = append(es, t.pexpr())
		}
		return &proto.Query_Expression{Value: &proto.Query_Expression_And_{And: &proto.Query_Expression_And{Exprs: es}}}
	case "O":
		k := t.int()
		var es []*proto.Query_Expression
		for i := 0; i < k; i++ {
			es = append(es, t.pexpr())
		}
		return &proto.Query_Expression{Value: &proto.Query_Expression_Or_{Or: &proto.Query_Expression_Or{Exprs: es}}}
	}
	fatal("bad tree")
	return nil
}

func fmtPExpr(sb *strings.Builder, e *proto.Query_Expression) {
	switch v := e.GetValue().(type) {
	case *proto.Query_Expression_Eq:
		fmt.Fprintf(sb, "E %s %s %d", fmtStr(v.Eq.GetColumn()), fmtStr(v.Eq.GetValue()), v.Eq.GetPlaceholder())
	case *proto.Query_Expression_Not_:
		sb.WriteString("N ")
		fmtPExpr(sb, v.Not.GetExpr())
	case *proto.Query_Expression_And_:
		fmt.Fprintf(sb, "A %d", len(v.And.GetExprs()))
		for _, x := range v.And.GetExprs() {
			sb.WriteString(" ")
			fmtPExpr(sb, x)
		}
	case *proto.Query_Expression_Or_:
		fmt.Fprintf(sb, "O %d", len(v.Or.GetExprs()))
		for _, x := range v.Or.GetExprs() {
			sb.WriteString(" ")
			fmtPExpr(sb, x)
		}
	default:
		sb.WriteString("UNSET")
	}
}

func fmtPQuery(q *proto.Query) string {
	var sb strings.Builder
	fmtPExpr(&sb, q.GetExpr())
	fmt.Fprintf(&sb, " GB %d", len(q.GetGroupBy()))
	for _, c := range q.GetGroupBy() {
		sb.WriteString(" " + fmtStr(c))
	}
	return sb.String()
}

func (t *toks) pquery() *proto.Query {
	e := t.pexpr()
	if t.next() != "GB" {
		fatal("expected GB")
	}
	m := t.int()
	var gb []string
	pqueryCount++
	if m == 0 && pqueryCount%2 == 1 {
		gb = make([]string, 0, 4) // an empty list that is not nil: the same query
	}
	for i := 0; i < m; i++ {
		gb = append(gb, t.str())
	}
	return &proto.Query{Expr: e, GroupBy: gb}
}

var pqueryCount int

// settle waits (bounded) for the goroutine count to return to the baseline.
func settle(base int) bool {
	// patient enough for a loaded machine (a lexer goroutine that is about to exit), cheap when
	// nothing is left behind; after 40 leaks the caller stops waiting
	for i := 0; i < 400; i++ {
		if runtime.NumGoroutine() <= base {
			return true
		}
		if i < 100 {
			runtime.Gosched()
		} else {
			time.Sleep(time.Millisecond)
		}
	}
	return runtime.NumGoroutine() <= base
}

var parseHangs int

func parseOne(s string) (string, *proto.Query) {
	var q *proto.Query
	var err error
	ok := true
	done := make(chan struct{})
	go func() {
		defer close(done)
		_, ok = guard(func() { q, err = queryparser.ParseQuery(s) })
	}()
	select {
	case <-done:
	case <-time.After(15 * time.Second):
		// ParseQuery does not return: the stuck goroutine is abandoned
		parseHangs++
		return "HANG", nil
	}
	switch {
	case !ok:
		return "PANIC", nil
	case err != nil:
		if q != nil {
			return "REJECT-WITH-QUERY", nil
		}
		return "REJECT", nil
	case q == nil:
		return "NIL", nil
	}
	return "ACCEPT " + fmtPQuery(q), q
}

func parseCmd(args []string) {
	lines := readLines(args[0])
	base := runtime.NumGoroutine()
	leaked := 0
	for _, line := range lines {
		t := newToks(line)
		if !t.more() {
			continue
		}
		switch t.next() {
		case "P":
			id := t.next()
			s := t.str()
			if parseHangs >= 3 {
				pr("P %s SKIPPED-AFTER-HANGS\n", id)
				continue
			}
			res, _ := parseOne(s)
			if res == "HANG" {
				base = runtime.NumGoroutine() // the abandoned goroutines stay
				leaked = 0
			}
			leak := ""
			if leaked < 40 && !settle(base+leaked) {
				n := runtime.NumGoroutine() - base - leaked
				leaked += n
				leak = fmt.Sprintf(" LEAK %d", n)
			}
			pr("P %s %s%s\n", id, res, leak)
		case "F":
			// format, re-parse, format again, re-parse, format: text1, tree1, text2, tree2, text3
			id := t.next()
			q := t.pquery()
			var text1 string
			if _, ok := guard(func() { text1 = queryparser.QueryToString(q) }); !ok {
				pr("F %s PANIC\n", id)
				continue
			}
			pr("F %s TEXT %s\n", id, fmtStr(text1))
			r1, q1 := parseOne(text1)
			pr("F1 %s %s\n", id, r1)
			if q1 != nil {
				text2 := queryparser.QueryToString(q1)
				pr("F2 %s TEXT %s\n", id, fmtStr(text2))
				r2, q2 := parseOne(text2)
				if q2 != nil {
					pr("F3 %s TEXT %s\n", id, fmtStr(queryparser.QueryToString(q2)))
				} else {
					pr("F3 %s %s\n", id, r2)
				}
			}
			settle(base + leaked)
		case "B":
			id := t.next()
			q := t.pquery()
			n := t.int()
			var vals []string
			for i := 0; i < n; i++ {
				vals = append(vals, t.str())
			}
			before, _ := gproto.Marshal(q)
			beforeTxt := fmtPQuery(q)
			var out *proto.Query
			_, ok := guard(func() { out = queryparser.ReplacePlaceholders(q, vals) })
			after, _ := gproto.Marshal(q)
			same := "SAME"
			if string(before) != string(after) || beforeTxt != fmtPQuery(q) {
				same = "CHANGED"
			}
			if !ok {
				pr("B %s PANIC %s\n", id, same)
				continue
			}
			pr("B %s OK %s %s\n", id, same, fmtPQuery(out))
		default:
			fatal("parse: bad line %q", line)
		}
	}
	pr("GOROUTINES %d %d\n", base, runtime.NumGoroutine())
}

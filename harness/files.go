package main

import (
	"bytes"
	"crypto/sha256"
	"encoding/hex"
	"fmt"
	"math/rand"
	"os"
	"path/filepath"
	"sort"
	"strings"
	"sync"
	"syscall"
	"time"

	"github.com/akrennmair/updog"
	"github.com/akrennmair/updog/internal/openfile"
	"go.etcd.io/bbolt"
)

func init() {
	commands["files"] = filesCmd
	commands["snapcheck"] = snapcheckCmd
}

func fileHash(path string) string {
	b, err := os.ReadFile(path)
	if err != nil {
		return "ABSENT"
	}
	h := sha256.Sum256(b)
	return hex.EncodeToString(h[:8]) + fmt.Sprintf(":%d", len(b))
}

// openWatched opens an index under a watchdog and panic recovery.
// Outcome: OK | ERR | PANIC | HANG.
// openHangs counts opens that never returned; after three of them further opens are not
// attempted (each would cost the full watchdog time) and are reported as HANG as well.
var openHangs int

func openWatched(path string, mode string) (*updog.Index, string) {
	type res struct {
		ix *updog.Index
		oc string
	}
	if openHangs >= 3 {
		return nil, "HANG"
	}
	ch := make(chan res, 1)
	go func() {
		var ix *updog.Index
		var err error
		var opts []updog.IndexOption
		switch mode {
		case "ondemand":
		case "preload":
			opts = append(opts, updog.WithPreloadedData())
		case "cached":
			opts = append(opts, updog.WithCache(updog.NewLRUCache(1<<20)))
		case "cached+preload":
			opts = append(opts, updog.WithCache(updog.NewLRUCache(1<<20)), updog.WithPreloadedData())
		}
		_, ok := guard(func() { ix, err = updog.OpenIndex(path, opts...) })
		switch {
		case !ok:
			ch <- res{nil, "PANIC"}
		case err != nil:
			ch <- res{nil, "ERR"}
		default:
			ch <- res{ix, "OK"}
		}
	}()
	select {
	case r := <-ch:
		return r.ix, r.oc
	case <-time.After(25 * time.Second):
		openHangs++
		return nil, "HANG"
	}
}

// withTimeout runs f; " CLOSE-HANG" if it does not return in time (the goroutine is abandoned).
func withTimeout(d time.Duration, f func() string) string {
	ch := make(chan string, 1)
	go func() { ch <- f() }()
	select {
	case r := <-ch:
		return r
	case <-time.After(d):
		return " CLOSE-HANG"
	}
}

// released reports whether nobody holds a lock on the file: a non-blocking exclusive flock
// on a read-only descriptor (does not modify the file, unlike opening it with bbolt).
func released(path string) bool {
	f, err := os.OpenFile(path, os.O_RDONLY, 0)
	if err != nil {
		return true
	}
	defer f.Close()
	if err := syscall.Flock(int(f.Fd()), syscall.LOCK_EX|syscall.LOCK_NB); err != nil {
		return false
	}
	syscall.Flock(int(f.Fd()), syscall.LOCK_UN)
	return true
}

// probes: every (column,value) of the rows (capped) plus NOT of the first; answers as one string.
func probeAnswers(ix *updog.Index, rows []map[string]string, limit int) string {
	var keys [][2]string
	seen := map[[2]string]bool{}
	for _, r := range rows {
		for c, v := range r {
			k := [2]string{c, v}
			if !seen[k] {
				seen[k] = true
				keys = append(keys, k)
			}
		}
	}
	sort.Slice(keys, func(i, j int) bool { return keys[i][0]+"\x00"+keys[i][1] < keys[j][0]+"\x00"+keys[j][1] })
	if len(keys) > limit {
		step := len(keys) / limit
		var k2 [][2]string
		for i := 0; i < len(keys); i += step {
			k2 = append(k2, keys[i])
		}
		keys = k2
	}
	var sb strings.Builder
	var sch *updog.Schema
	if _, ok := guard(func() { sch = ix.GetSchema() }); !ok {
		return "SCHEMA-PANIC"
	}
	sb.WriteString(fmtSchema(sch))
	for i, k := range keys {
		sb.WriteString("|" + execQuery(ix, &updog.Query{Expr: &updog.ExprEqual{Column: k[0], Value: k[1]}}))
		if i == 0 {
			sb.WriteString("|" + execQuery(ix, &updog.Query{Expr: &updog.ExprNot{Expr: &updog.ExprEqual{Column: k[0], Value: k[1]}}, GroupBy: []string{k[0]}}))
		}
	}
	return sb.String()
}

// checkSnapshot decides the property on one file: rejected, or answers like the reference.
func checkSnapshot(path string, ref string, rows []map[string]string, mode string) string {
	before := fileHash(path)
	ix, oc := openWatched(path, mode)
	if oc != "OK" {
		if oc == "ERR" && !released(path) {
			return "ERR-LOCK-HELD"
		}
		if oc == "ERR" && fileHash(path) != before {
			return "ERR-FILE-MODIFIED"
		}
		return oc
	}
	got := probeAnswers(ix, rows, 400)
	ix.Close()
	if got == ref {
		return "OK-EQUAL"
	}
	d := 0
	for d < len(got) && d < len(ref) && got[d] == ref[d] {
		d++
	}
	lo := d - 40
	if lo < 0 {
		lo = 0
	}
	hi := d + 60
	g, r := got, ref
	if hi < len(g) {
		g = g[:hi]
	}
	if hi < len(r) {
		r = r[:hi]
	}
	return "OK-DIFF got=..." + strings.ReplaceAll(g[lo:], " ", "_") + " want=..." + strings.ReplaceAll(r[lo:], " ", "_")
}

func refAnswers(path string, rows []map[string]string) string {
	cp := path + ".refcopy"
	copyFile(path, cp)
	defer os.Remove(cp)
	ix, oc := openWatched(cp, "ondemand")
	if oc != "OK" {
		return "REF-" + oc
	}
	defer ix.Close()
	return probeAnswers(ix, rows, 400)
}

// crashCase: write the dataset with the named writer, snapshot the output file after every
// commit (hook) and at creation, then decide the property on every snapshot.
func crashCase(dir, cid, writer string, rows []map[string]string) {
	out := filepath.Join(dir, cid+".updog")
	var snaps []string
	var sites []string
	snap := func(site string) {
		p := fmt.Sprintf("%s.snap%d", out, len(snaps))
		copyFile(out, p)
		snaps = append(snaps, p)
		sites = append(sites, site)
	}
	updog.VerifCommitHook = func(site string, db *bbolt.DB) {
		if db != nil && db.Path() == out {
			snap(site)
		}
	}
	defer func() { updog.VerifCommitHook = nil }()
	outcome := "OK"
	_, ok := guard(func() {
		switch writer {
		case "mem":
			// the state right after bbolt created the file: reproduce it on a sibling path
			e := out + ".empty"
			db, err := bbolt.Open(e, 0644, nil)
			if err == nil {
				db.Close()
				snaps = append(snaps, e)
				sites = append(sites, "created")
			}
			w := updog.NewIndexWriter(out)
			for _, r := range rows {
				if _, err := w.AddRow(r); err != nil {
					outcome = "ERR"
					return
				}
			}
			if err := w.Flush(); err != nil {
				outcome = "ERR"
			}
		case "big":
			db, err := bbolt.Open(out, 0644, &bbolt.Options{OpenFile: openfile.OpenFile(openfile.Options{FailIfFileExists: true})})
			if err != nil {
				fatal("bbolt open: %v", err)
			}
			defer db.Close()
			snap("created")
			tmp, err := bbolt.Open(out+".tmp", 0600, nil)
			if err != nil {
				fatal("bbolt open: %v", err)
			}
			defer func() { tmp.Close(); os.Remove(out + ".tmp") }()
			w, err := updog.NewBigIndexWriter(db, tmp)
			if err != nil {
				outcome = "ERR"
				return
			}
			for _, r := range rows {
				if _, err := w.AddRow(r); err != nil {
					outcome = "ERR"
					return
				}
			}
			if err := w.Flush(); err != nil {
				outcome = "ERR"
			}
		}
	})
	if !ok {
		outcome = "PANIC"
	}
	pr("CRASH %s %s %d\n", cid, outcome, len(snaps))
	if outcome != "OK" {
		return
	}
	ref := refAnswers(out, rows)
	pr("CRASHREF %s %s\n", cid, map[bool]string{true: "OK", false: ref}[!strings.HasPrefix(ref, "REF-")])
	for i, p := range snaps {
		for _, mode := range []string{"ondemand", "preload"} {
			pr("SNAP %s %d %s %s %s\n", cid, i, sites[i], mode, checkSnapshot(p, ref, rows, mode))
		}
		os.Remove(p)
	}
	os.Remove(out)
}

// ---- C15: damaged files

// damage applies the named defects to a copy of a valid index through the bbolt API.
func damage(path string, defects []string, rng *rand.Rand) {
	db, err := bbolt.Open(path, 0644, nil)
	if err != nil {
		fatal("damage open: %v", err)
	}
	defer db.Close()
	err = db.Update(func(tx *bbolt.Tx) error {
		for _, d := range defects {
			b := tx.Bucket([]byte("data"))
			switch d {
			case "nobucket":
				if b != nil {
					if err := tx.DeleteBucket([]byte("data")); err != nil {
						return err
					}
				}
			case "noS":
				if b != nil {
					b.Delete([]byte{'S'})
				}
			case "truncS":
				if b != nil {
					v := append([]byte(nil), b.Get([]byte{'S'})...)
					if len(v) > 2 {
						b.Put([]byte{'S'}, v[:len(v)/2])
					}
				}
			case "randS":
				if b != nil {
					v := make([]byte, 40)
					rng.Read(v)
					b.Put([]byte{'S'}, v)
				}
			case "emptyS":
				if b != nil {
					b.Put([]byte{'S'}, []byte{})
				}
			case "noI":
				if b != nil {
					b.Delete([]byte{'I'})
				}
			case "I0":
				if b != nil {
					b.Put([]byte{'I'}, []byte{})
				}
			case "I3":
				if b != nil {
					b.Put([]byte{'I'}, []byte{0, 0, 1})
				}
			case "I5":
				if b != nil {
					b.Put([]byte{'I'}, []byte{0, 0, 0, 0, 2})
				}
			case "badV1", "badVall", "emptyV1":
				if b != nil {
					c := b.Cursor()
					var keys [][]byte
					for k, _ := c.Seek([]byte{'V'}); k != nil && bytes.HasPrefix(k, []byte{'V'}); k, _ = c.Next() {
						keys = append(keys, append([]byte(nil), k...))
					}
					for i, k := range keys {
						if d != "badVall" && i > 0 {
							break
						}
						v := make([]byte, 13)
						rng.Read(v)
						if d == "emptyV1" {
							v = []byte{}
						}
						b.Put(k, v)
					}
				}
			default:
				fatal("unknown defect %q", d)
			}
		}
		return nil
	})
	if err != nil {
		fatal("damage: %v", err)
	}
}

func damageCase(dir, cid string, base string, rows []map[string]string, defects []string, mode string, seed int64) {
	path := filepath.Join(dir, cid+".updog")
	rng := rand.New(rand.NewSource(seed))
	switch {
	case len(defects) == 1 && defects[0] == "missing":
		os.Remove(path)
	case len(defects) == 1 && defects[0] == "zerolen":
		os.WriteFile(path, nil, 0644)
	case len(defects) == 1 && defects[0] == "garbage":
		v := make([]byte, 5000)
		rng.Read(v)
		os.WriteFile(path, v, 0644)
	case len(defects) == 1 && defects[0] == "truncfile":
		b, _ := os.ReadFile(base)
		os.WriteFile(path, b[:len(b)/3], 0644)
	default:
		copyFile(base, path)
		if !(len(defects) == 1 && defects[0] == "none") {
			damage(path, defects, rng)
		}
	}
	before := fileHash(path)
	ix, oc := openWatched(path, mode)
	res := oc
	if oc == "OK" {
		// answers on the first stored value and on an absent value
		var c0, v0 string
		for _, r := range rows {
			for c, v := range r {
				if c0 == "" || c+"\x00"+v < c0+"\x00"+v0 {
					c0, v0 = c, v
				}
			}
		}
		res += " " + strings.ReplaceAll(execQuery(ix, &updog.Query{Expr: &updog.ExprEqual{Column: c0, Value: v0}}), " ", "_")
		// queries the library rejects (unknown group-by column, unknown column, no expression):
		// whatever they took must have been given back before Close
		for _, fq := range []*updog.Query{
			{Expr: &updog.ExprEqual{Column: c0, Value: v0}, GroupBy: []string{"no-such-column"}},
			{Expr: &updog.ExprEqual{Column: "no-such-column", Value: "x"}},
			{Expr: &updog.ExprAnd{Exprs: []updog.Expression{&updog.ExprEqual{Column: c0, Value: v0}, &updog.ExprNot{Expr: &updog.ExprEqual{Column: "no-such-column", Value: "x"}}}}, GroupBy: []string{c0}},
			{},
		} {
			fq := fq
			withTimeout(10*time.Second, func() string { return execQuery(ix, fq) })
		}
		// Close may be called more than once: four times, under a watchdog
		closed := withTimeout(20*time.Second, func() string {
			var cerr2 error
			if _, ok := guard(func() {
				ix.Close()
				cerr2 = ix.Close()
				ix.Close()
				ix.Close()
			}); !ok {
				return " CLOSE-PANIC"
			}
			if cerr2 != nil {
				return " CLOSE2-ERR"
			}
			return ""
		})
		res += closed
	}
	rel := "RELEASED"
	if oc != "HANG" && !released(path) {
		rel = "LOCK-HELD"
	}
	after := fileHash(path)
	same := "UNCHANGED"
	if before != after {
		same = "MODIFIED"
	}
	// open / fail / open again, open / close / close / open
	again := ""
	if oc != "HANG" && rel == "RELEASED" {
		ix2, oc2 := openWatched(path, mode)
		again = oc2
		if ix2 != nil {
			ix2.Close()
			ix2.Close()
			ix3, oc3 := openWatched(path, "ondemand")
			again += "," + oc3
			if ix3 != nil {
				ix3.Close()
			}
		}
	}
	pr("DAMAGE %s %s %s %s %s\n", cid, res, rel, same, again)
	os.Remove(path)
}

// ---- C16: existing files are never clobbered; reading never modifies

func clobberCase(dir, cid, kind, writer string, rows []map[string]string, valid string) {
	path := filepath.Join(dir, cid+".out")
	rng := rand.New(rand.NewSource(int64(len(cid))))
	switch kind {
	case "empty":
		os.WriteFile(path, nil, 0644)
	case "valid":
		copyFile(valid, path)
	case "random":
		v := make([]byte, 3000)
		rng.Read(v)
		os.WriteFile(path, v, 0644)
	case "readonly":
		copyFile(valid, path)
		os.Chmod(path, 0444)
	case "short":
		os.WriteFile(path, []byte("x"), 0644)
	case "leftover", "noI", "nobucket", "noSnoI":
		// what an interrupted creation leaves behind: a bbolt file holding part of an index
		copyFile(valid, path)
		damage(path, map[string][]string{"leftover": {"noS"}, "noI": {"noI"}, "nobucket": {"nobucket"}, "noSnoI": {"noS", "noI"}}[kind], rng)
	case "emptybolt", "otherbolt", "boltdata":
		// a bbolt database of some other application (also one that has a bucket named data)
		db, err := bbolt.Open(path, 0644, nil)
		if err != nil {
			fatal("bbolt open: %v", err)
		}
		db.Update(func(tx *bbolt.Tx) error {
			switch kind {
			case "otherbolt":
				b, _ := tx.CreateBucket([]byte("accounts"))
				b.Put([]byte("alice"), []byte("100"))
			case "boltdata":
				b, _ := tx.CreateBucket([]byte("data"))
				b.Put([]byte("precious"), []byte("do not lose"))
			}
			return nil
		})
		db.Close()
	}
	before := fileHash(path)
	oc := "OK"
	_, ok := guard(func() {
		switch writer {
		case "mem":
			w := updog.NewIndexWriter(path)
			for _, r := range rows {
				w.AddRow(r)
			}
			if err := w.Flush(); err != nil {
				oc = "ERR"
			}
		case "bigopen":
			// what create --big does with its output path
			db, err := bbolt.Open(path, 0644, &bbolt.Options{Timeout: time.Second, OpenFile: openfile.OpenFile(openfile.Options{FailIfFileExists: true})})
			if err != nil {
				oc = "ERR"
				return
			}
			db.Close()
		}
	})
	if !ok {
		oc = "PANIC"
	}
	after := fileHash(path)
	same := "UNCHANGED"
	if before != after {
		same = "MODIFIED"
	}
	pr("CLOBBER %s %s %s\n", cid, oc, same)
	os.Chmod(path, 0644)
	os.Remove(path)
}

// clobberRace: (a) two writers flush to the same path at the same time: exactly one may win and
// the file must be the winner's; (b) a file that appears at the output path while a Flush is
// under way must not be replaced by a Flush that reports success.
func clobberRace(dir, cid string, rows []map[string]string) {
	verdict := "OK"
	for round := 0; round < 12 && verdict == "OK"; round++ {
		path := filepath.Join(dir, fmt.Sprintf("%s-race%d.out", cid, round))
		var wg sync.WaitGroup
		errs := make([]error, 2)
		start := make(chan struct{})
		for k := 0; k < 2; k++ {
			wg.Add(1)
			go func(k int) {
				defer wg.Done()
				w := updog.NewIndexWriter(path)
				for _, r := range rows {
					w.AddRow(r)
				}
				w.AddRow(map[string]string{"writer": fmt.Sprintf("w%d", k)})
				<-start
				errs[k] = w.Flush()
			}(k)
		}
		close(start)
		wg.Wait()
		wins := 0
		for _, e := range errs {
			if e == nil {
				wins++
			}
		}
		if wins != 1 {
			verdict = fmt.Sprintf("TWO-WRITERS-%d-SUCCEEDED", wins)
		}
		os.Remove(path)
	}
	if verdict == "OK" {
		// (b) the sentinel
		big := make([]map[string]string, 0, 6000)
		for i := 0; i < 6000; i++ {
			big = append(big, map[string]string{"u": fmt.Sprintf("u%06d", i), "k": fmt.Sprintf("%d", i%7)})
		}
		sub := filepath.Join(dir, cid+"-sentinel")
		os.MkdirAll(sub, 0755)
		path := filepath.Join(sub, "out.updog")
		w := updog.NewIndexWriter(path)
		for _, r := range big {
			w.AddRow(r)
		}
		done := make(chan error, 1)
		go func() { done <- w.Flush() }()
		created := false
		deadline := time.Now().Add(5 * time.Second)
		for time.Now().Before(deadline) && !created {
			ents, _ := os.ReadDir(sub)
			if len(ents) > 0 {
				f, err := os.OpenFile(path, os.O_CREATE|os.O_EXCL|os.O_WRONLY, 0644)
				if err == nil {
					f.WriteString("precious bytes that appeared meanwhile")
					f.Close()
					created = true
				}
				break
			}
		}
		ferr := <-done
		if created && ferr == nil {
			b, _ := os.ReadFile(path)
			if string(b) != "precious bytes that appeared meanwhile" {
				verdict = "FILE-CREATED-DURING-FLUSH-WAS-REPLACED"
			}
		}
		os.RemoveAll(sub)
	}
	pr("CLOBBERRACE %s %s\n", cid, verdict)
}

// doubleFlush: the same writer flushed twice to its path: the second Flush finds the file and
// must fail without touching it.
func doubleFlush(dir, cid string, rows []map[string]string) {
	path := filepath.Join(dir, cid+".twice")
	w := updog.NewIndexWriter(path)
	for _, r := range rows {
		w.AddRow(r)
	}
	res := "OK"
	if err := w.Flush(); err != nil {
		pr("DOUBLEFLUSH %s FIRST-FLUSH-FAILED UNCHANGED\n", cid)
		return
	}
	before := fileHash(path)
	w.AddRow(map[string]string{"extra": "row"})
	var err2 error
	if _, ok := guard(func() { err2 = w.Flush() }); !ok {
		res = "PANIC"
	} else if err2 != nil {
		res = "ERR"
	}
	same := "UNCHANGED"
	if fileHash(path) != before {
		same = "MODIFIED"
	}
	pr("DOUBLEFLUSH %s %s %s\n", cid, res, same)
	os.Remove(path)
}

// readOnlyDBCase: OpenIndexFromBoltDatabase on a caller-supplied handle that was opened
// read-write (bbolt's default): open with options, probe, close — the file must not change.
func readOnlyDBCase(dir, cid, valid string, rows []map[string]string, mode string) {
	path := filepath.Join(dir, cid+".rwdb")
	if strings.HasPrefix(mode, "big/") {
		// the same rows written by the disk-backed writer
		if b := writeIndex(path, "big", rows); b.outcome != "OK" {
			pr("READONLYDB %s BUILD-%s UNCHANGED\n", cid, b.outcome)
			return
		}
	} else {
		copyFile(valid, path)
	}
	// the file exactly as the writer left it: a read-write bbolt handle on a file a writer
	// has finished commits nothing by itself, so any change is due to how the file was written
	// or to what the index does with the handle
	before := fileHash(path)
	res := "OK"
	_, ok := guard(func() {
		db, err := bbolt.Open(path, 0644, nil)
		if err != nil {
			res = "BOLT-OPEN-ERR"
			return
		}
		var opts []updog.IndexOption
		if strings.Contains(mode, "preload") {
			opts = append(opts, updog.WithPreloadedData())
		}
		if strings.Contains(mode, "cached") {
			opts = append(opts, updog.WithCache(updog.NewLRUCache(1<<20)))
		}
		ix, err := updog.OpenIndexFromBoltDatabase(db, opts...)
		if err != nil {
			res = "OPEN-ERR"
			db.Close()
			return
		}
		probeAnswers(ix, rows, 40)
		ix.Close()
	})
	if !ok {
		res = "PANIC"
	}
	same := "UNCHANGED"
	if fileHash(path) != before {
		same = "MODIFIED"
	}
	pr("READONLYDB %s %s %s\n", cid, res, same)
	os.Remove(path)
}

func readOnlyCase(dir, cid, valid string, rows []map[string]string, mode string, seed int64) {
	path := filepath.Join(dir, cid+".ro")
	copyFile(valid, path)
	before := fileHash(path)
	st0, _ := os.Stat(path)
	rng := rand.New(rand.NewSource(seed))
	res := ""
	for round := 0; round < 3; round++ {
		ix, oc := openWatched(path, mode)
		if ix == nil {
			res = "OPEN-" + oc
			break
		}
		probeAnswers(ix, rows, 30+rng.Intn(30))
		ix.Close()
		if round == 1 {
			ix.Close()
		}
	}
	after := fileHash(path)
	st1, _ := os.Stat(path)
	same := "UNCHANGED"
	if before != after || (st0 != nil && st1 != nil && st0.Size() != st1.Size()) {
		same = "MODIFIED"
	}
	pr("READONLY %s %s %s\n", cid, res+"OK", same)
	os.Remove(path)
}

func filesCmd(args []string) {
	lines := readLines(args[0])
	dir, err := os.MkdirTemp(".", "files-")
	if err != nil {
		fatal("%v", err)
	}
	defer os.RemoveAll(dir)
	datasets := map[string]*dataset{}
	valid := map[string]string{}
	getValid := func(ds string) string {
		if p, ok := valid[ds]; ok {
			return p
		}
		p := filepath.Join(dir, "valid-"+ds+".updog")
		b := writeIndex(p, "mem", datasets[ds].rows)
		if b.outcome != "OK" {
			fatal("cannot build the valid base index: %s", b.outcome)
		}
		if _, err := os.Stat(p); err != nil {
			// Flush reported success and wrote nothing: recorded, and the cases that need the
			// file get an empty stand-in
			pr("NOFILE %s Flush returned nil but the output path does not exist\n", ds)
			os.WriteFile(p, nil, 0644)
		}
		valid[ds] = p
		return p
	}
	for i := 0; i < len(lines); i++ {
		t := newToks(lines[i])
		if !t.more() {
			continue
		}
		switch t.next() {
		case "DATASET":
			var d *dataset
			d, i = readDataset(lines, i)
			datasets[d.id] = d
		case "CRASH":
			cid, ds, writer := t.next(), t.next(), t.next()
			crashCase(dir, cid, writer, datasets[ds].rows)
		case "DAMAGE":
			cid, ds, mode := t.next(), t.next(), t.next()
			seed := t.int()
			var defects []string
			for t.more() {
				defects = append(defects, t.next())
			}
			damageCase(dir, cid, getValid(ds), datasets[ds].rows, defects, mode, int64(seed))
		case "CLOBBER":
			cid, ds, kind, writer := t.next(), t.next(), t.next(), t.next()
			clobberCase(dir, cid, kind, writer, datasets[ds].rows, getValid(ds))
		case "CLOBBERRACE":
			cid, ds := t.next(), t.next()
			clobberRace(dir, cid, datasets[ds].rows)
		case "DOUBLEFLUSH":
			cid, ds := t.next(), t.next()
			doubleFlush(dir, cid, datasets[ds].rows)
		case "READONLYDB":
			cid, ds, mode := t.next(), t.next(), t.next()
			readOnlyDBCase(dir, cid, getValid(ds), datasets[ds].rows, mode)
		case "READONLY":
			cid, ds, mode := t.next(), t.next(), t.next()
			readOnlyCase(dir, cid, getValid(ds), datasets[ds].rows, mode, int64(t.int()))
		case "DROP":
			delete(datasets, t.next())
		default:
			fatal("files: bad line %q", lines[i])
		}
	}
}

// snapcheck <file> <reference index> : the C06 verdict for a file left behind by a killed
// `updog create` (ABSENT | ERR | OK-EQUAL | OK-DIFF | PANIC | HANG), both open modes.
func snapcheckCmd(args []string) {
	path, refPath := args[0], args[1]
	if _, err := os.Stat(path); err != nil {
		pr("KILL ABSENT\n")
		return
	}
	cp := refPath + ".rc"
	copyFile(refPath, cp)
	defer os.Remove(cp)
	ix, oc := openWatched(cp, "ondemand")
	if oc != "OK" {
		fatal("reference index does not open: %s", oc)
	}
	sch := ix.GetSchema()
	var rows []map[string]string
	for _, c := range sch.Columns {
		for _, v := range c.Values {
			rows = append(rows, map[string]string{c.Name: v.Value})
		}
	}
	ref := probeAnswers(ix, rows, 400)
	ix.Close()
	for _, mode := range []string{"ondemand", "preload"} {
		c2 := path + ".sc"
		copyFile(path, c2)
		pr("KILL %s %s\n", mode, checkSnapshot(c2, ref, rows, mode))
		os.Remove(c2)
	}
}

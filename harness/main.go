// Command zzverif is the implementation side of the correspondence checks in /verif.
// It is copied into a scratch copy of the repository (so that internal packages are
// importable), reads a case file and prints what the real code does, one observable
// per line, in the same syntax the extracted Coq model prints.
package main

import (
	"bufio"
	"fmt"
	"os"
	"strconv"
	"strings"
)

var out *bufio.Writer

func pr(format string, args ...interface{}) { fmt.Fprintf(out, format, args...) }

func readLines(path string) []string {
	f, err := os.Open(path)
	if err != nil {
		fatal("open %s: %v", path, err)
	}
	defer f.Close()
	var lines []string
	sc := bufio.NewScanner(f)
	sc.Buffer(make([]byte, 1<<20), 1<<30)
	for sc.Scan() {
		lines = append(lines, sc.Text())
	}
	return lines
}

func fatal(format string, args ...interface{}) {
	if out != nil {
		out.Flush()
	}
	fmt.Fprintf(os.Stderr, "zzverif: "+format+"\n", args...)
	os.Exit(3)
}

func atoi(s string) int {
	i, err := strconv.Atoi(s)
	if err != nil {
		fatal("bad int %q", s)
	}
	return i
}

func atou(s string) uint64 {
	i, err := strconv.ParseUint(s, 10, 64)
	if err != nil {
		fatal("bad uint %q", s)
	}
	return i
}

// toks is a cursor over the space separated fields of a line.
type toks struct {
	f []string
	i int
}

func newToks(line string) *toks { return &toks{f: strings.Fields(line)} }
func (t *toks) more() bool      { return t.i < len(t.f) }
func (t *toks) next() string {
	if t.i >= len(t.f) {
		fatal("line too short: %v", t.f)
	}
	t.i++
	return t.f[t.i-1]
}
func (t *toks) int() int { return atoi(t.next()) }
func (t *toks) u64() uint64 {
	v, err := strconv.ParseUint(t.next(), 10, 64)
	if err != nil {
		fatal("bad unsigned number: %v", err)
	}
	return v
}

// str reads "<len> b1 ... blen".
func (t *toks) str() string {
	n := t.int()
	b := make([]byte, n)
	for i := range b {
		b[i] = byte(t.int())
	}
	return string(b)
}

func fmtStr(s string) string {
	var sb strings.Builder
	sb.WriteString(strconv.Itoa(len(s)))
	for i := 0; i < len(s); i++ {
		sb.WriteByte(' ')
		sb.WriteString(strconv.Itoa(int(s[i])))
	}
	return sb.String()
}

var commands = map[string]func(args []string){}

func main() {
	out = bufio.NewWriterSize(os.Stdout, 1<<20)
	defer out.Flush()
	if len(os.Args) < 2 {
		fatal("usage: zzverif <command> args...")
	}
	cmd, ok := commands[os.Args[1]]
	if !ok {
		fatal("unknown command %q", os.Args[1])
	}
	cmd(os.Args[2:])
}

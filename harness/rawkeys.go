package main

import (
	"encoding/binary"
	"encoding/hex"
	"fmt"
	"path/filepath"
	"strings"

	"go.etcd.io/bbolt"
)

// rawKeys: the bucket "data" of a written index file as bbolt's cursor yields it: the value of
// key I, the number of V keys, and whether the sequence has the shape I, S, then 9-byte V keys
// in strictly ascending order of their big-endian value index.
func (s *dpState) rawKeys(qid, ds, writer string) {
	b := s.build(ds, writer)
	if b.outcome != "OK" {
		pr("RAWKEYS %s %s\n", qid, b.outcome)
		return
	}
	db, err := bbolt.Open(b.file, 0644, &bbolt.Options{ReadOnly: true})
	if err != nil {
		pr("RAWKEYS %s OPENERR\n", qid)
		return
	}
	defer db.Close()
	db.View(func(tx *bbolt.Tx) error {
		bk := tx.Bucket([]byte("data"))
		if bk == nil {
			pr("RAWKEYS %s NOBUCKET\n", qid)
			return nil
		}
		var order []string
		nv := 0
		shape := "ok"
		var last uint64
		c := bk.Cursor()
		for k, _ := c.First(); k != nil; k, _ = c.Next() {
			switch {
			case len(k) == 1 && (k[0] == 'I' || k[0] == 'S'):
				if nv > 0 {
					shape = "header-after-values"
				}
				order = append(order, string(k))
			case len(k) == 9 && k[0] == 'V':
				h := binary.BigEndian.Uint64(k[1:])
				if nv > 0 && h <= last {
					shape = "values-not-ascending"
				}
				last = h
				nv++
			default:
				shape = "foreign-key-" + hex.EncodeToString(k)
			}
		}
		pr("RAWKEYS %s I %s HDR %s NV %d SHAPE %s\n", qid, hex.EncodeToString(bk.Get([]byte("I"))), strings.Join(order, ""), nv, shape)
		return nil
	})
}

// cursorOrder: the keys be64(h) ‖ be32(r) of the given pairs put into a fresh bbolt bucket (as
// the big writer does with its temp bucket), read back in cursor order.
func (s *dpState) cursorOrder(qid string, pairs [][2]uint64) {
	s.nfile++
	file := filepath.Join(s.dir, fmt.Sprintf("cursor%d.db", s.nfile))
	db, err := bbolt.Open(file, 0600, nil)
	if err != nil {
		fatal("bbolt open: %v", err)
	}
	defer db.Close()
	err = db.Update(func(tx *bbolt.Tx) error {
		bk, err := tx.CreateBucket([]byte("t"))
		if err != nil {
			return err
		}
		for _, p := range pairs {
			var key [12]byte
			binary.BigEndian.PutUint64(key[:8], p[0])
			binary.BigEndian.PutUint32(key[8:], uint32(p[1]))
			if err := bk.Put(key[:], []byte{}); err != nil {
				return err
			}
		}
		return nil
	})
	if err != nil {
		fatal("cursor put: %v", err)
	}
	var sb strings.Builder
	n := 0
	db.View(func(tx *bbolt.Tx) error {
		c := tx.Bucket([]byte("t")).Cursor()
		for k, _ := c.First(); k != nil; k, _ = c.Next() {
			fmt.Fprintf(&sb, " %d %d", binary.BigEndian.Uint64(k[:8]), binary.BigEndian.Uint32(k[8:]))
			n++
		}
		return nil
	})
	pr("CURSOR %s %d%s\n", qid, n, sb.String())
}

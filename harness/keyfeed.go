package main

import (
	"bytes"
	"encoding/binary"
	"fmt"
	"path/filepath"

	"github.com/akrennmair/updog"
)

// keyFeed feeds the cache keys the library itself produced back to it as data: every key seen
// by the cache in a first run is turned into byte strings (with and without each node tag,
// big- and little-endian), split at the first NUL into a column name and a value, and stored in
// a second index together with the rows of the first. On that index a cached handle must still
// answer every comparison on those columns like an uncached one: keys of different node kinds
// must not meet, whatever bytes the data holds.
func (s *dpState) keyFeed(id string) {
	var rows []map[string]string
	for i := 0; i < 400; i++ {
		r := map[string]string{"c": fmt.Sprintf("v%d", i)}
		if i%3 == 0 {
			r["d"] = "z"
		}
		rows = append(rows, r)
	}
	var ops []updog.Expression
	for i := 0; i < 400; i++ {
		leaf := func(j int) updog.Expression { return &updog.ExprEqual{Column: "c", Value: fmt.Sprintf("v%d", j%400)} }
		ops = append(ops, &updog.ExprAnd{Exprs: []updog.Expression{leaf(i)}}, &updog.ExprOr{Exprs: []updog.Expression{leaf(i)}}, &updog.ExprNot{Expr: leaf(i)})
	}
	s.nfile++
	f1 := filepath.Join(s.dir, fmt.Sprintf("keyfeed%d-a.updog", s.nfile))
	if b := writeIndex(f1, "mem", rows); b.outcome != "OK" {
		pr("KEYFEED %s BUILD-%s\n", id, b.outcome)
		return
	}
	rec := newRecCache(updog.NewLRUCache(1 << 26))
	ix1, err := updog.OpenIndex(f1, updog.WithCache(rec))
	if err != nil {
		pr("KEYFEED %s OPEN-ERR\n", id)
		return
	}
	for _, e := range ops {
		execQuery(ix1, &updog.Query{Expr: e})
	}
	ix1.Close()
	type pair struct{ col, val string }
	seen := map[pair]bool{}
	var pairs []pair
	for _, k := range rec.keys {
		var be, le [8]byte
		binary.BigEndian.PutUint64(be[:], k)
		binary.LittleEndian.PutUint64(le[:], k)
		for _, enc := range [][]byte{be[:], le[:]} {
			for _, tag := range []string{"", "E", "N", "A", "O"} {
				buf := append([]byte(tag), enc...)
				if i := bytes.IndexByte(buf, 0); i >= 1 {
					p := pair{string(buf[:i]), string(buf[i+1:])}
					if !seen[p] && len(pairs) < 600 {
						seen[p] = true
						pairs = append(pairs, p)
					}
				}
			}
		}
	}
	rows2 := append([]map[string]string(nil), rows...)
	for _, p := range pairs {
		rows2 = append(rows2, map[string]string{p.col: p.val, "d": "z"})
	}
	f2 := filepath.Join(s.dir, fmt.Sprintf("keyfeed%d-b.updog", s.nfile))
	if b := writeIndex(f2, "mem", rows2); b.outcome != "OK" {
		pr("KEYFEED %s BUILD2-%s\n", id, b.outcome)
		return
	}
	f3 := f2 + ".copy"
	copyFile(f2, f3)
	cached, err1 := updog.OpenIndex(f2, updog.WithCache(updog.NewLRUCache(1<<26)))
	fresh, err2 := updog.OpenIndex(f3)
	if err1 != nil || err2 != nil {
		pr("KEYFEED %s OPEN2-ERR\n", id)
		return
	}
	defer cached.Close()
	defer fresh.Close()
	for _, e := range ops {
		execQuery(cached, &updog.Query{Expr: e})
	}
	for _, p := range pairs {
		leaf := &updog.ExprEqual{Column: p.col, Value: p.val}
		for _, e := range []updog.Expression{leaf, &updog.ExprNot{Expr: leaf}, &updog.ExprAnd{Exprs: []updog.Expression{leaf}}} {
			a, b := execQuery(cached, &updog.Query{Expr: e}), execQuery(fresh, &updog.Query{Expr: e})
			if a != b {
				pr("KEYFEED %s DIFF %s cached=%s uncached=%s\n", id, fmtStr(e.String()), a, b)
				return
			}
		}
	}
	for _, e := range ops[:60] {
		a, b := execQuery(cached, &updog.Query{Expr: e}), execQuery(fresh, &updog.Query{Expr: e})
		if a != b {
			pr("KEYFEED %s DIFF %s cached=%s uncached=%s\n", id, fmtStr(e.String()), a, b)
			return
		}
	}
	pr("KEYFEED %s OK %d\n", id, len(pairs))
}

package main

import (
	"context"
	"database/sql"
	"database/sql/driver"
	"fmt"
	"os"
	"path/filepath"
	"sort"
	"strings"
	"sync"
	"time"

	_ "github.com/akrennmair/updog/driver"
)

func init() { commands["sql"] = sqlCmd }

// withWatchdog runs f; a panic is PANIC, more than d is HANG (the goroutine is abandoned).
func withWatchdog(d time.Duration, f func() string) string {
	ch := make(chan string, 1)
	go func() {
		res := "PANIC"
		defer func() {
			if r := recover(); r != nil {
				ch <- "PANIC"
				return
			}
			ch <- res
		}()
		res = f()
	}()
	select {
	case r := <-ch:
		return r
	case <-time.After(d):
		return "HANG"
	}
}

func fmtRows(rows *sql.Rows) string {
	defer rows.Close()
	cols, err := rows.Columns()
	if err != nil {
		return "ERR"
	}
	var sb strings.Builder
	fmt.Fprintf(&sb, "ROWS %d", len(cols))
	for _, c := range cols {
		sb.WriteString(" " + fmtStr(c))
	}
	cts, err := rows.ColumnTypes()
	if err != nil {
		return "ERR"
	}
	sb.WriteString(" TYPES")
	for _, ct := range cts {
		sb.WriteString(" " + ct.DatabaseTypeName() + ":" + ct.ScanType().String())
	}
	var out []string
	for rows.Next() {
		vals := make([]interface{}, len(cols))
		ptrs := make([]interface{}, len(cols))
		for i := range vals {
			ptrs[i] = &vals[i]
		}
		if err := rows.Scan(ptrs...); err != nil {
			return "ERR-SCAN"
		}
		var rb strings.Builder
		for _, v := range vals {
			switch x := v.(type) {
			case nil:
				rb.WriteString(" NULL")
			case string:
				rb.WriteString(" T " + fmtStr(x))
			case []byte:
				rb.WriteString(" T " + fmtStr(string(x)))
			case int64:
				fmt.Fprintf(&rb, " I %d", x)
			default:
				fmt.Fprintf(&rb, " ? %T", v)
			}
		}
		out = append(out, rb.String())
	}
	if err := rows.Err(); err != nil {
		return "ERR-ROWS"
	}
	fmt.Fprintf(&sb, " N %d", len(out))
	for _, r := range out {
		sb.WriteString(" |" + r)
	}
	return sb.String()
}

// readArgs reads "<n> (S <str> | I <int>)*".
func (t *toks) sqlArgs() []interface{} {
	n := t.int()
	var args []interface{}
	for i := 0; i < n; i++ {
		switch t.next() {
		case "S":
			args = append(args, t.str())
		case "I":
			args = append(args, t.int())
		case "NS": // the same text as a valid sql.NullString (a driver.Valuer)
			args = append(args, sql.NullString{String: t.str(), Valid: true})
		case "PS": // ... as a *string
			v := t.str()
			args = append(args, &v)
		case "NI": // the same number as a valid sql.NullInt64
			args = append(args, sql.NullInt64{Int64: int64(t.int()), Valid: true})
		case "BT":
			args = append(args, true)
		case "BF":
			args = append(args, false)
		default:
			fatal("bad arg kind")
		}
	}
	return args
}

type sqlState struct {
	dir   string
	files map[string]string // dataset -> index file
	dbs   map[string]*sql.DB
	conns map[string]driver.Conn
	drv   driver.Driver
	dead  map[string]bool // handles wedged by a panic or hang inside database/sql
	rel   bool            // data source names use relative paths
}

func sqlCmd(args []string) {
	lines := readLines(args[0])
	dir, err := os.MkdirTemp(".", "sql-")
	if err != nil {
		fatal("%v", err)
	}
	defer os.RemoveAll(dir)
	st := &sqlState{dir: dir, files: map[string]string{}, dbs: map[string]*sql.DB{}, conns: map[string]driver.Conn{}, dead: map[string]bool{}}
	datasets := map[string]*dataset{}
	probe, _ := sql.Open("updog", "file:/nonexistent")
	st.drv = probe.Driver()
	probe.Close()
	fileOf := func(ds string) string {
		if p, ok := st.files[ds]; ok {
			return p
		}
		p, _ := filepath.Abs(filepath.Join(dir, ds+".updog"))
		if d, ok := datasets[ds]; ok {
			if b := writeIndex(p, "mem", d.rows); b.outcome != "OK" {
				fatal("cannot build index for %s: %s", ds, b.outcome)
			}
		}
		st.files[ds] = p
		return p
	}
	dsnOf := func(ds, opts string) string {
		if strings.HasPrefix(ds, "grpc://") {
			return ds
		}
		dsn := "file:" + fileOf(ds)
		if st.rel {
			// the same file named relative to the working directory
			if wd, err := os.Getwd(); err == nil {
				if r, err := filepath.Rel(wd, fileOf(ds)); err == nil {
					dsn = "file:" + r
				}
			}
		}
		if opts != "-" {
			dsn += "?" + opts
		}
		return dsn
	}
	const wd = 25 * time.Second
	for i := 0; i < len(lines); i++ {
		t := newToks(lines[i])
		if !t.more() {
			continue
		}
		switch t.next() {
		case "DATASET":
			var d *dataset
			d, i = readDataset(lines, i)
			datasets[d.id] = d
		case "RELPATHS":
			st.rel = t.next() == "on"
		case "LOADFILE":
			ds := t.next()
			st.files[ds] = t.next()
		case "MISSINGFILE":
			ds := t.next()
			p, _ := filepath.Abs(filepath.Join(dir, ds+".updog"))
			st.files[ds] = p
		case "GARBAGEFILE":
			ds := t.next()
			p, _ := filepath.Abs(filepath.Join(dir, ds+".updog"))
			os.WriteFile(p, []byte("this is not a bbolt database, not at all................"), 0644)
			st.files[ds] = p
		case "SQLOPEN":
			h, ds, opts := t.next(), t.next(), t.next()
			db, err := sql.Open("updog", dsnOf(ds, opts))
			if err != nil {
				pr("SQLOPEN %s ERR\n", h)
				continue
			}
			if t.more() {
				n := t.int()
				db.SetMaxOpenConns(n)
				db.SetMaxIdleConns(n)
			}
			st.dbs[h] = db
			pr("SQLOPEN %s OK\n", h)
		case "SQLQ":
			// SQLQ id h direct|prepared <text> <k executions>, then k lines "ARGS ..."
			id, h, mode := t.next(), t.next(), t.next()
			text := t.str()
			k := t.int()
			var argsets [][]interface{}
			for j := 0; j < k; j++ {
				i++
				at := newToks(lines[i])
				if at.next() != "ARGS" {
					fatal("expected ARGS")
				}
				argsets = append(argsets, at.sqlArgs())
			}
			db := st.dbs[h]
			if db == nil || st.dead[h] {
				for j := range argsets {
					pr("SQL %s.%d %s\n", id, j, map[bool]string{true: "DEAD", false: "NODB"}[st.dead[h]])
				}
				continue
			}
			var stmt *sql.Stmt
			prepErr := ""
			if mode == "prepared" {
				prepErr = withWatchdog(wd, func() string {
					var err error
					stmt, err = db.Prepare(text)
					if err != nil {
						return "ERR"
					}
					return ""
				})
			}
			for j, a := range argsets {
				a := a
				res := prepErr
				if res == "" {
					res = withWatchdog(wd, func() string {
						var rows *sql.Rows
						var err error
						switch mode {
						case "prepared":
							rows, err = stmt.Query(a...)
						case "tx":
							// inside a transaction (Begin / Query / Commit on one pooled connection)
							tx, terr := db.Begin()
							if terr != nil {
								return "ERR"
							}
							rows, err = tx.Query(text, a...)
							if err != nil {
								tx.Rollback()
								return "ERR"
							}
							res := fmtRows(rows)
							if cerr := tx.Commit(); cerr != nil {
								return "ERR-COMMIT"
							}
							return res
						default:
							rows, err = db.Query(text, a...)
						}
						if err != nil {
							return "ERR"
						}
						return fmtRows(rows)
					})
				}
				pr("SQL %s.%d %s\n", id, j, res)
				if res == "PANIC" || res == "HANG" {
					st.dead[h] = true
					for j2 := j + 1; j2 < len(argsets); j2++ {
						pr("SQL %s.%d DEAD\n", id, j2)
					}
					break
				}
			}
			if stmt != nil && !st.dead[h] {
				stmt.Close()
			}
		case "SQLCONC":
			// first use of a handle by n goroutines at once
			id, h := t.next(), t.next()
			n := t.int()
			text := t.str()
			db := st.dbs[h]
			var wg sync.WaitGroup
			results := make([]string, n)
			start := make(chan struct{})
			for g := 0; g < n; g++ {
				wg.Add(1)
				go func(g int) {
					defer wg.Done()
					<-start
					results[g] = withWatchdog(wd, func() string {
						rows, err := db.Query(text)
						if err != nil {
							return "ERR"
						}
						return fmtRows(rows)
					})
				}(g)
			}
			close(start)
			wg.Wait()
			for g, r := range results {
				pr("SQL %s.%d %s\n", id, g, r)
				if r == "PANIC" || r == "HANG" {
					st.dead[h] = true
				}
			}
		case "SQLPREPSLEEP":
			// a prepared statement executed, left alone for a while, executed again
			id, h := t.next(), t.next()
			text := t.str()
			ms := t.int()
			db := st.dbs[h]
			var stmt *sql.Stmt
			run := func() string {
				return withWatchdog(wd, func() string {
					rows, err := stmt.Query()
					if err != nil {
						return "ERR"
					}
					return fmtRows(rows)
				})
			}
			perr := withWatchdog(wd, func() string {
				var err error
				stmt, err = db.Prepare(text)
				if err != nil {
					return "ERR"
				}
				return ""
			})
			if perr != "" {
				pr("SQL %s.0 %s\nSQL %s.1 %s\n", id, perr, id, perr)
				continue
			}
			pr("SQL %s.0 %s\n", id, run())
			time.Sleep(time.Duration(ms) * time.Millisecond)
			pr("SQL %s.1 %s\n", id, run())
			stmt.Close()
		case "SQLCONCA":
			// n goroutines run ONE query text with DIFFERENT arguments at the same time (direct and
			// prepared): every answer must be the one the same call gives when nothing else runs
			id, h := t.next(), t.next()
			n, iters := t.int(), t.int()
			text := t.str()
			argsets := make([][]interface{}, t.int())
			for k := range argsets {
				argsets[k] = t.sqlArgs()
			}
			db := st.dbs[h]
			want := make([]string, len(argsets))
			for k, a := range argsets {
				a := a
				want[k] = withWatchdog(wd, func() string {
					rows, err := db.Query(text, a...)
					if err != nil {
						return "ERR"
					}
					return fmtRows(rows)
				})
			}
			var wg sync.WaitGroup
			var mu sync.Mutex
			mism, first := 0, ""
			for g := 0; g < n; g++ {
				wg.Add(1)
				go func(g int) {
					defer wg.Done()
					var stmt *sql.Stmt
					if g%2 == 1 {
						stmt, _ = db.Prepare(text)
					}
					for it := 0; it < iters; it++ {
						k := (g + it) % len(argsets)
						got := withWatchdog(wd, func() string {
							var rows *sql.Rows
							var err error
							if stmt != nil {
								rows, err = stmt.Query(argsets[k]...)
							} else {
								rows, err = db.Query(text, argsets[k]...)
							}
							if err != nil {
								return "ERR"
							}
							return fmtRows(rows)
						})
						if got != want[k] {
							mu.Lock()
							mism++
							if first == "" {
								first = fmt.Sprintf("argument set %d: got %s, alone it gives %s", k, got, want[k])
							}
							mu.Unlock()
							if got == "HANG" || got == "PANIC" {
								return
							}
						}
					}
					if stmt != nil {
						stmt.Close()
					}
				}(g)
			}
			wg.Wait()
			if mism == 0 {
				pr("CONCA %s OK %d\n", id, n*iters)
			} else {
				pr("CONCA %s MISMATCH %d %s\n", id, mism, first)
			}
		case "SQLTX2":
			// two transactions open at the same time on one handle, each queried, then both committed
			id, h := t.next(), t.next()
			text := t.str()
			db := st.dbs[h]
			res := withWatchdog(wd, func() string {
				tx1, err := db.Begin()
				if err != nil {
					return "ERR-BEGIN1"
				}
				tx2, err := db.Begin()
				if err != nil {
					tx1.Rollback()
					return "ERR-BEGIN2"
				}
				var outs []string
				for _, tx := range []*sql.Tx{tx1, tx2, tx1} {
					rows, err := tx.Query(text)
					if err != nil {
						outs = append(outs, "ERR")
						continue
					}
					outs = append(outs, fmtRows(rows))
				}
				if tx2.Commit() != nil || tx1.Commit() != nil {
					return "ERR-COMMIT"
				}
				return strings.Join(outs, " ## ")
			})
			for k, part := range strings.Split(res, " ## ") {
				pr("SQL %s.%d %s\n", id, k, part)
			}
			if res == "PANIC" || res == "HANG" {
				st.dead[h] = true
			}
		case "SQLCHURN":
			// n goroutines, each: sql.Open, one query, Close — iters times, all on one data source
			id, ds, opts := t.next(), t.next(), t.next()
			n, iters := t.int(), t.int()
			text := t.str()
			dsn := dsnOf(ds, opts)
			var wg sync.WaitGroup
			var mu sync.Mutex
			counts := map[string]int{}
			for g := 0; g < n; g++ {
				wg.Add(1)
				go func() {
					defer wg.Done()
					for k := 0; k < iters; k++ {
						r := withWatchdog(wd, func() string {
							db, err := sql.Open("updog", dsn)
							if err != nil {
								return "OPENERR"
							}
							defer db.Close()
							rows, err := db.Query(text)
							if err != nil {
								return "ERR"
							}
							return fmtRows(rows)
						})
						mu.Lock()
						counts[r]++
						mu.Unlock()
						if r == "HANG" || r == "PANIC" {
							return
						}
					}
				}()
			}
			wg.Wait()
			var keys []string
			for k := range counts {
				keys = append(keys, k)
			}
			sort.Strings(keys)
			for _, k := range keys {
				pr("CHURN %s %d %s\n", id, counts[k], k)
			}
		case "SQLCLOSE":
			h := t.next()
			db := st.dbs[h]
			if db == nil || st.dead[h] {
				pr("SQLCLOSE %s %s\n", h, map[bool]string{true: "DEAD", false: "NODB"}[st.dead[h]])
				delete(st.dbs, h)
				continue
			}
			pr("SQLCLOSE %s %s\n", h, withWatchdog(wd, func() string {
				if err := db.Close(); err != nil {
					return "ERR"
				}
				return "OK"
			}))
			delete(st.dbs, h)
		case "SQLPROBE":
			id, ds := t.next(), t.next()
			if released(fileOf(ds)) {
				pr("SQLPROBE %s RELEASED\n", id)
			} else {
				pr("SQLPROBE %s LOCK-HELD\n", id)
			}
		// ---- driver.Conn level (C17): the registered driver's own Open / Close
		case "DOPEN":
			h, ds, opts := t.next(), t.next(), t.next()
			pr("D %s %s\n", h, withWatchdog(wd, func() string {
				c, err := st.drv.Open(dsnOf(ds, opts))
				if err != nil {
					return "OPENERR"
				}
				st.conns[h] = c
				return "OPENED"
			}))
		case "DQUERY":
			id, h := t.next(), t.next()
			text := t.str()
			c := st.conns[h]
			if c == nil {
				pr("D %s NOCONN\n", id)
				continue
			}
			pr("D %s %s\n", id, withWatchdog(wd, func() string {
				qc, ok := c.(driver.QueryerContext)
				if !ok {
					return "NOQUERYER"
				}
				rows, err := qc.QueryContext(context.Background(), text, nil)
				if err != nil {
					return "ERR"
				}
				defer rows.Close()
				cols := rows.Columns()
				vals := make([]driver.Value, len(cols))
				var sb strings.Builder
				n := 0
				for rows.Next(vals) == nil {
					n++
					for _, v := range vals {
						fmt.Fprintf(&sb, " %v", v)
					}
					sb.WriteString(" |")
				}
				return fmt.Sprintf("DROWS %d%s", n, strings.ReplaceAll(sb.String(), "\n", "\\n"))
			}))
		case "DCLOSE":
			h := t.next()
			c := st.conns[h]
			if c == nil {
				pr("D %s.close NOCONN\n", h)
				continue
			}
			pr("D %s.close %s\n", h, withWatchdog(wd, func() string {
				if err := c.Close(); err != nil {
					return "CLOSEERR"
				}
				return "CLOSED"
			}))
			delete(st.conns, h)
		default:
			fatal("sql: bad line %q", lines[i])
		}
	}
	for h, db := range st.dbs {
		if !st.dead[h] {
			db.Close()
		}
	}
}

package main

import (
	"encoding/csv"
	"os"
)

func init() { commands["mkcsv"] = mkcsvCmd }

// mkcsv <casefile> <out.csv>: the case file holds "REC <n> <field>..." lines (the first one is
// the header); written with encoding/csv. Prints the runes of every header field (Go's own
// UTF-8 decoding), which is what the model's normalize_header takes.
func mkcsvCmd(args []string) {
	lines := readLines(args[0])
	f, err := os.Create(args[1])
	if err != nil {
		fatal("%v", err)
	}
	w := csv.NewWriter(f)
	first := true
	for _, l := range lines {
		t := newToks(l)
		if !t.more() {
			continue
		}
		switch t.next() {
		case "REC":
			n := t.int()
			rec := make([]string, n)
			for i := range rec {
				rec[i] = t.str()
			}
			if first {
				first = false
				pr("HDRS %d\n", n)
				for _, h := range rec {
					rs := []rune(h)
					pr("HDR %d", len(rs))
					for _, r := range rs {
						pr(" %d", r)
					}
					pr("\n")
				}
			}
			if err := w.Write(rec); err != nil {
				fatal("csv write: %v", err)
			}
		case "RAW":
			// raw bytes appended after flushing what was written so far (malformed input)
			w.Flush()
			f.WriteString(t.str())
		}
	}
	w.Flush()
	f.Close()
}

package main

import (
	"encoding/csv"
	"os"
	"strings"
)

func init() { commands["mkcsv"] = mkcsvCmd }

// mkcsv <casefile> <out.csv>: the case file holds "REC <n> <field>..." lines (the first one is
// the header); written with encoding/csv. Prints the runes of every header field (Go's own
// UTF-8 decoding), which is what the model's normalize_header takes.
func mkcsvCmd(args []string) {
	lines := readLines(args[0])
	f, err := os.Create(args[1])
	if err != nil {
		fatal("%v", err)
	}
	w := csv.NewWriter(f)
	first := true
	minimal := false // STYLE minimal: hand-written CSV, quotes only where the format needs them
	for _, l := range lines {
		t := newToks(l)
		if !t.more() {
			continue
		}
		switch t.next() {
		case "REC":
			n := t.int()
			rec := make([]string, n)
			for i := range rec {
				rec[i] = t.str()
			}
			if first {
				first = false
				pr("HDRS %d\n", n)
				for _, h := range rec {
					rs := []rune(h)
					pr("HDR %d", len(rs))
					for _, r := range rs {
						pr(" %d", r)
					}
					pr("\n")
				}
			}
			if minimal {
				// leading / trailing blanks and tabs, NUL, non-UTF-8 bytes stay unquoted (a reader
				// that does not trim must keep them); an empty single field must be quoted
				for i, fld := range rec {
					if i > 0 {
						f.WriteString(",")
					}
					if strings.ContainsAny(fld, "\",\n\r") || (fld == "" && len(rec) == 1) {
						f.WriteString("\"" + strings.ReplaceAll(fld, "\"", "\"\"") + "\"")
					} else {
						f.WriteString(fld)
					}
				}
				f.WriteString("\n")
				continue
			}
			if err := w.Write(rec); err != nil {
				fatal("csv write: %v", err)
			}
		case "STYLE":
			minimal = t.next() == "minimal"
		case "RAW":
			// raw bytes appended after flushing what was written so far (malformed input)
			w.Flush()
			f.WriteString(t.str())
		}
	}
	w.Flush()
	f.Close()
}

func init() { commands["csvread"] = csvreadCmd }

// csvread <casefile>: "CSVTEXT id <bytes>" is read by encoding/csv with its default
// configuration (what create.go uses); "RUNES id <bytes>" is decoded by Go's own string->rune
// conversion. One line of output each, in the format of the model driver's csvbytes command.
func csvreadCmd(args []string) {
	for _, l := range readLines(args[0]) {
		t := newToks(l)
		if !t.more() {
			continue
		}
		switch t.next() {
		case "CSVTEXT":
			id := t.next()
			text := t.str()
			recs, err := csv.NewReader(strings.NewReader(text)).ReadAll()
			if err != nil {
				pr("CSVREAD %s ERR\n", id)
				continue
			}
			pr("CSVREAD %s OK %d", id, len(recs))
			for _, r := range recs {
				pr(" R %d", len(r))
				for _, f := range r {
					pr(" %s", fmtStr(f))
				}
			}
			pr("\n")
		case "RUNES":
			id := t.next()
			rs := []rune(t.str())
			pr("RUNES %s %d", id, len(rs))
			for _, r := range rs {
				pr(" %d", r)
			}
			pr("\n")
		default:
			fatal("csvread: bad line %q", l)
		}
	}
}

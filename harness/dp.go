package main

import (
	"time"
	"fmt"
	"io"
	"os"
	"path/filepath"
	"strings"

	"github.com/akrennmair/updog"
	"go.etcd.io/bbolt"
)

func init() { commands["dp"] = dpCmd }

// ---- expressions in the prefix syntax of the case files

func (t *toks) expr() updog.Expression {
	switch t.next() {
	case "E":
		c := t.str()
		v := t.str()
		return &updog.ExprEqual{Column: c, Value: v}
	case "N":
		return &updog.ExprNot{Expr: t.expr()}
	case "A":
		k := t.int()
		e := &updog.ExprAnd{}
		for i := 0; i < k; i++ {
			e.Exprs = append(e.Exprs, t.expr())
		}
		return e
	case "O":
		k := t.int()
		e := &updog.ExprOr{}
		for i := 0; i < k; i++ {
			e.Exprs = append(e.Exprs, t.expr())
		}
		return e
	}
	fatal("bad expression")
	return nil
}

func fmtResult(r *updog.Result) string {
	var sb strings.Builder
	fmt.Fprintf(&sb, "OK %d %d", r.Count, len(r.Groups))
	for _, g := range r.Groups {
		fmt.Fprintf(&sb, " %d", len(g.Fields))
		for _, f := range g.Fields {
			sb.WriteString(" " + fmtStr(f.Column) + " " + fmtStr(f.Value))
		}
		fmt.Fprintf(&sb, " %d", g.Count)
	}
	return sb.String()
}

func fmtSchema(s *updog.Schema) string {
	var sb strings.Builder
	fmt.Fprintf(&sb, "OK %d", len(s.Columns))
	for _, c := range s.Columns {
		sb.WriteString(" " + fmtStr(c.Name))
		fmt.Fprintf(&sb, " %d", len(c.Values))
		for _, v := range c.Values {
			sb.WriteString(" " + fmtStr(v.Value))
		}
	}
	return sb.String()
}

// guard runs f and converts a panic into ok=false.
func guard(f func()) (panicMsg string, ok bool) {
	defer func() {
		if r := recover(); r != nil {
			panicMsg = fmt.Sprint(r)
			ok = false
		}
	}()
	f()
	return "", true
}

func copyFile(src, dst string) {
	in, err := os.Open(src)
	if err != nil {
		fatal("copy: %v", err)
	}
	defer in.Close()
	o, err := os.Create(dst)
	if err != nil {
		fatal("copy: %v", err)
	}
	defer o.Close()
	if _, err := io.Copy(o, in); err != nil {
		fatal("copy: %v", err)
	}
}

type dataset struct {
	id   string
	rows []map[string]string
}

// builtIndex is the outcome of writing a dataset with one writer.
type builtIndex struct {
	file    string // "" when the writer failed
	outcome string // OK | ERR | PANIC
	ids     []uint32
}

type dpState struct {
	dir      string
	datasets map[string]*dataset
	built    map[string]*builtIndex   // ds/writer
	open     map[string]*updog.Index  // ds/writer/mode
	openErr  map[string]string        // ds/writer/mode -> ERR | PANIC
	nfile    int
	hist     *history
}

func newDPState() *dpState {
	dir, err := os.MkdirTemp(".", "dp-")
	if err != nil {
		fatal("%v", err)
	}
	return &dpState{dir: dir, datasets: map[string]*dataset{}, built: map[string]*builtIndex{},
		open: map[string]*updog.Index{}, openErr: map[string]string{}}
}

// t2expr re-parses the expression of an HQ line so that the reference query shares no
// object with the query under test.
func t2expr(line string) updog.Expression {
	t := newToks(line)
	for j := 0; j < 5; j++ {
		t.next()
	}
	return t.expr()
}

func (s *dpState) cleanup() {
	s.finishHistory(s.hist)
	for _, ix := range s.open {
		ix.Close()
	}
	os.RemoveAll(s.dir)
}

// writeIndex writes rows with the named writer (mem: IndexWriter.Flush to a file; memdb:
// IndexWriter.WriteToBoltDatabase into a caller-supplied DB; big: BigIndexWriter).
// writeIndex builds an index file; a writer that does not come back within five minutes counts
// as HANG (its goroutine is abandoned) so that the run still ends with a verdict.
func writeIndex(file, writer string, rows []map[string]string) *builtIndex {
	ch := make(chan *builtIndex, 1)
	go func() { ch <- writeIndexNow(file, writer, rows) }()
	select {
	case r := <-ch:
		return r
	case <-time.After(5 * time.Minute):
		return &builtIndex{file: "", outcome: "HANG"}
	}
}

func writeIndexNow(file, writer string, rows []map[string]string) (res *builtIndex) {
	res = &builtIndex{file: file, outcome: "OK"}
	msg, ok := guard(func() {
		switch writer {
		case "mem", "memdb", "mem2", "memr", "mem3":
			w := updog.NewIndexWriter(file)
			reuse := map[string]string{} // memr: the caller refills ONE map object for every row
			for i, r := range rows {
				if writer == "mem3" && i == len(rows)/2 {
					// mem3: written out once half-way (throw-away database), then more rows, then Flush
					db, err := bbolt.Open(file+".half", 0644, nil)
					if err != nil {
						fatal("bbolt open: %v", err)
					}
					if err := w.WriteToBoltDatabase(db); err != nil {
						res.outcome = "ERR"
					}
					db.Close()
					os.Remove(file + ".half")
				}
				row := r
				if writer == "memr" {
					for k := range reuse {
						delete(reuse, k)
					}
					for k, v := range r {
						reuse[k] = v
					}
					row = reuse
				}
				id, err := w.AddRow(row)
				if err != nil {
					res.outcome = "ERR"
					return
				}
				res.ids = append(res.ids, id)
			}
			if writer == "mem2" {
				// the same writer flushed twice: first into a throw-away database, then to the file
				db, err := bbolt.Open(file+".first", 0644, nil)
				if err != nil {
					fatal("bbolt open: %v", err)
				}
				if err := w.WriteToBoltDatabase(db); err != nil {
					res.outcome = "ERR"
				}
				db.Close()
				os.Remove(file + ".first")
			}
			if writer == "mem" || writer == "mem2" || writer == "memr" || writer == "mem3" {
				if err := w.Flush(); err != nil {
					res.outcome = "ERR"
				}
			} else {
				db, err := bbolt.Open(file, 0644, nil)
				if err != nil {
					fatal("bbolt open: %v", err)
				}
				if err := w.WriteToBoltDatabase(db); err != nil {
					res.outcome = "ERR"
				}
				db.Close()
			}
		case "big", "bigr":
			db, err := bbolt.Open(file, 0644, nil)
			if err != nil {
				fatal("bbolt open: %v", err)
			}
			defer db.Close()
			tmp, err := bbolt.Open(file+".tmp", 0600, nil)
			if err != nil {
				fatal("bbolt open: %v", err)
			}
			defer func() { tmp.Close(); os.Remove(file + ".tmp") }()
			w, err := updog.NewBigIndexWriter(db, tmp)
			if err != nil {
				res.outcome = "ERR"
				return
			}
			reuse := map[string]string{} // bigr: the caller refills ONE map object for every row
			for _, r := range rows {
				if writer == "bigr" {
					for k := range reuse {
						delete(reuse, k)
					}
					for k, v := range r {
						reuse[k] = v
					}
					r = reuse
				}
				id, err := w.AddRow(r)
				if err != nil {
					res.outcome = "ERR"
					return
				}
				res.ids = append(res.ids, id)
			}
			if err := w.Flush(); err != nil {
				res.outcome = "ERR"
			}
		default:
			fatal("unknown writer %q", writer)
		}
	})
	if !ok {
		res.outcome = "PANIC"
		res.file = ""
		_ = msg
	}
	return res
}

func (s *dpState) build(ds, writer string) *builtIndex {
	key := ds + "/" + writer
	if b, ok := s.built[key]; ok {
		return b
	}
	d, ok := s.datasets[ds]
	if !ok {
		fatal("unknown dataset %s", ds)
	}
	s.nfile++
	file := filepath.Join(s.dir, fmt.Sprintf("ix%d-%s.updog", s.nfile, writer))
	b := writeIndex(file, writer, d.rows)
	s.built[key] = b
	return b
}

func openOpts(mode string) []updog.IndexOption {
	switch mode {
	case "ondemand":
		return nil
	case "preload":
		return []updog.IndexOption{updog.WithPreloadedData()}
	case "cached":
		return []updog.IndexOption{updog.WithCache(updog.NewLRUCache(1 << 22))}
	}
	fatal("unknown mode %q", mode)
	return nil
}

// index returns the open index for (ds, writer, mode) or the outcome class why there is none.
func (s *dpState) index(ds, writer, mode string) (*updog.Index, string) {
	key := ds + "/" + writer + "/" + mode
	if ix, ok := s.open[key]; ok {
		return ix, "OK"
	}
	if e, ok := s.openErr[key]; ok {
		return nil, e
	}
	b := s.build(ds, writer)
	if b.outcome != "OK" {
		s.openErr[key] = b.outcome
		return nil, b.outcome
	}
	// one private copy per open mode: bbolt takes an exclusive lock per file
	file := b.file + "." + mode
	if _, err := os.Stat(file); err != nil {
		copyFile(b.file, file)
	}
	var ix *updog.Index
	var err error
	_, ok := guard(func() { ix, err = updog.OpenIndex(file, openOpts(mode)...) })
	if !ok {
		s.openErr[key] = "PANIC"
		return nil, "PANIC"
	}
	if err != nil {
		s.openErr[key] = "ERR"
		return nil, "ERR"
	}
	s.open[key] = ix
	return ix, "OK"
}

func (s *dpState) drop(ds string) {
	for k, ix := range s.open {
		if strings.HasPrefix(k, ds+"/") {
			ix.Close()
			delete(s.open, k)
		}
	}
	for k := range s.openErr {
		if strings.HasPrefix(k, ds+"/") {
			delete(s.openErr, k)
		}
	}
	for k, b := range s.built {
		if strings.HasPrefix(k, ds+"/") {
			if b.file != "" {
				matches, _ := filepath.Glob(b.file + "*")
				for _, m := range matches {
					os.Remove(m)
				}
			}
			delete(s.built, k)
		}
	}
	delete(s.datasets, ds)
}

// punchHole removes one operand of the deepest-first operator node found (or the whole
// expression of a leaf-only query) and returns the function that puts it back.
func punchHole(q *updog.Query) func() {
	var find func(e updog.Expression) func() func()
	find = func(e updog.Expression) func() func() {
		switch x := e.(type) {
		case *updog.ExprNot:
			if f := find(x.Expr); f != nil {
				return f
			}
			return func() func() { old := x.Expr; x.Expr = nil; return func() { x.Expr = old } }
		case *updog.ExprAnd:
			for _, o := range x.Exprs {
				if f := find(o); f != nil {
					return f
				}
			}
			if len(x.Exprs) > 0 {
				return func() func() { i := len(x.Exprs) - 1; old := x.Exprs[i]; x.Exprs[i] = nil; return func() { x.Exprs[i] = old } }
			}
		case *updog.ExprOr:
			for _, o := range x.Exprs {
				if f := find(o); f != nil {
					return f
				}
			}
			if len(x.Exprs) > 0 {
				return func() func() { old := x.Exprs[0]; x.Exprs[0] = nil; return func() { x.Exprs[0] = old } }
			}
		}
		return nil
	}
	if f := find(q.Expr); f != nil {
		return f()
	}
	old := q.Expr
	q.Expr = nil
	return func() { q.Expr = old }
}

func execQuery(ix *updog.Index, q *updog.Query) string {
	var (
		r   *updog.Result
		err error
	)
	_, ok := guard(func() { r, err = ix.Execute(q) })
	if !ok {
		return "PANIC"
	}
	if err != nil {
		return "ERR"
	}
	return fmtResult(r)
}

func readDataset(lines []string, i int) (*dataset, int) {
	t := newToks(lines[i])
	t.next()
	d := &dataset{id: t.next()}
	n := t.int()
	for j := 0; j < n; j++ {
		i++
		rt := newToks(lines[i])
		if rt.next() != "R" {
			fatal("expected R line")
		}
		k := rt.int()
		row := make(map[string]string, k)
		for x := 0; x < k; x++ {
			c := rt.str()
			v := rt.str()
			row[c] = v
		}
		d.rows = append(d.rows, row)
	}
	return d, i
}

func dpCmd(args []string) {
	lines := readLines(args[0])
	s := newDPState()
	defer s.cleanup()
	for i := 0; i < len(lines); i++ {
		t := newToks(lines[i])
		if !t.more() {
			continue
		}
		switch t.next() {
		case "DATASET":
			var d *dataset
			d, i = readDataset(lines, i)
			s.datasets[d.id] = d
		case "DROP":
			s.drop(t.next())
		case "QUERY":
			qid, ds, writer, mode := t.next(), t.next(), t.next(), t.next()
			t.next() // spec flag (model side only)
			e := t.expr()
			if t.next() != "GB" {
				fatal("expected GB")
			}
			m := t.int()
			var gb []string
			for j := 0; j < m; j++ {
				gb = append(gb, t.str())
			}
			ix, oc := s.index(ds, writer, mode)
			if ix == nil {
				pr("Q %s %s\n", qid, oc)
				continue
			}
			pr("Q %s %s\n", qid, execQuery(ix, &updog.Query{Expr: e, GroupBy: gb}))
		case "HIST":
			s.finishHistory(s.hist)
			hid, ds, writer, mode := t.next(), t.next(), t.next(), t.next()
			capv := t.next()
			var c int64
			if capv[0] == '-' {
				c = -int64(atou(capv[1:]))
			} else {
				c = int64(atou(capv))
			}
			s.hist = s.startHistory(hid, ds, writer, mode, c)
		case "ENDHIST":
			s.finishHistory(s.hist)
			s.hist = nil
		case "HQ":
			qid := t.next()
			t.next()
			t.next()
			t.next()
			e := t.expr()
			if t.next() != "GB" {
				fatal("expected GB")
			}
			m := t.int()
			var gb []string
			for j := 0; j < m; j++ {
				gb = append(gb, t.str())
			}
			h := s.hist
			if h == nil {
				fatal("HQ outside a history")
			}
			if h.ix == nil {
				pr("HQ %s %s\n", qid, h.oc)
				continue
			}
			pr("HQ %s %s\n", qid, execQuery(h.ix, &updog.Query{Expr: e, GroupBy: gb}))
			if h.fresh != nil {
				pr("HF %s %s\n", qid, execQuery(h.fresh, &updog.Query{Expr: t2expr(lines[i]), GroupBy: gb}))
			}
		case "CONC":
			cid, ds, writer, mode := t.next(), t.next(), t.next(), t.next()
			capv := t.next()
			var c int64
			if capv[0] == '-' {
				c = -int64(atou(capv[1:]))
			} else {
				c = int64(atou(capv))
			}
			nthreads, perThread, seed, nq := t.int(), t.int(), t.int(), t.int()
			var pool []concQuery
			for j := 0; j < nq; j++ {
				i++
				ht := newToks(lines[i])
				for x := 0; x < 5; x++ {
					ht.next()
				}
				ht.expr()
				if ht.next() != "GB" {
					fatal("expected GB")
				}
				m := ht.int()
				var gb []string
				for y := 0; y < m; y++ {
					gb = append(gb, ht.str())
				}
				pool = append(pool, concQuery{line: lines[i], gb: gb})
			}
			s.concRun(cid, ds, writer, mode, c, nthreads, perThread, int64(seed), pool)
			for j := range pool {
				qid := newToks(pool[j].line)
				qid.next()
				pr("HQ %s %s\n", qid.next(), pool[j].want)
			}
		case "LRUD":
			cid := t.next()
			capv := atou(t.next())
			nthreads, perThread, nkeys, seed := t.int(), t.int(), t.int(), t.int()
			lruDirect(cid, capv, nthreads, perThread, nkeys, int64(seed))
		case "LOADINDEX":
			// an index file produced elsewhere (the updog binary) becomes the built index of a dataset
			cid, writer, path := t.next(), t.next(), t.next()
			s.built[cid+"/"+writer] = &builtIndex{file: path, outcome: "OK"}
			s.datasets[cid] = &dataset{id: cid}
		case "ADDROW":
			cid, writer := t.next(), t.next()
			nthreads, total := t.int(), t.int()
			s.addRowCase(cid, writer, nthreads, total)
		case "ADDROWPAIR":
			cidA, writerA, cidB, writerB := t.next(), t.next(), t.next(), t.next()
			nthreads, total, off := t.int(), t.int(), t.int()
			s.addRowPair(cidA, writerA, cidB, writerB, nthreads, total, off)
		case "HREUSE":
			// one query object executed, modified in place into a second query, executed again
			qid := t.next()
			t.next()
			t.next()
			t.next()
			e1 := t.expr()
			if t.next() != "THEN" {
				fatal("expected THEN")
			}
			e2 := t.expr()
			if t.next() != "GB" {
				fatal("expected GB")
			}
			m := t.int()
			var gb []string
			for j := 0; j < m; j++ {
				gb = append(gb, t.str())
			}
			h := s.hist
			if h == nil || h.ix == nil {
				pr("HQ %s.a NOINDEX\nHQ %s.b NOINDEX\n", qid, qid)
				continue
			}
			q := &updog.Query{Expr: e1, GroupBy: gb}
			pr("HQ %s.a %s\n", qid, execQuery(h.ix, q))
			if !morph(q.Expr, e2) {
				q.Expr = e2
			}
			pr("HQ %s.b %s\n", qid, execQuery(h.ix, q))
		case "QHOLE":
			// a Query executed while one operand is still missing (rejected), completed by the
			// caller in place, executed again: must answer like a fresh query (C08)
			qid, ds, writer, mode := t.next(), t.next(), t.next(), t.next()
			e := t.expr()
			if t.next() != "GB" {
				fatal("expected GB")
			}
			m := t.int()
			var gb []string
			for j := 0; j < m; j++ {
				gb = append(gb, t.str())
			}
			ix, oc := s.index(ds, writer, mode)
			if ix == nil {
				pr("QH %s.0 %s\nQH %s.1 %s\n", qid, oc, qid, oc)
				continue
			}
			q := &updog.Query{Expr: e, GroupBy: gb}
			restore := punchHole(q)
			first := execQuery(ix, q)
			if first != "PANIC" {
				first = "ERR-OR-OK"
			}
			pr("QH %s.0 %s\n", qid, first)
			restore()
			pr("QH %s.1 %s\n", qid, execQuery(ix, q))
		case "QMOD":
			// one *updog.Query executed, then modified by the caller (tree rewritten in place,
			// group-by list replaced / cleared, value copy) and executed again (C08)
			qid, ds, writer, mode := t.next(), t.next(), t.next(), t.next()
			e1 := t.expr()
			rdgb := func() []string {
				if t.next() != "GB" {
					fatal("expected GB")
				}
				m := t.int()
				var gb []string
				for j := 0; j < m; j++ {
					gb = append(gb, t.str())
				}
				return gb
			}
			gb1 := rdgb()
			if t.next() != "THEN" {
				fatal("expected THEN")
			}
			e2 := t.expr()
			gb2 := rdgb()
			ix, oc := s.index(ds, writer, mode)
			if ix == nil {
				for j := 0; j < 4; j++ {
					pr("QM %s.%d %s\n", qid, j, oc)
				}
				continue
			}
			q := &updog.Query{Expr: e1, GroupBy: gb1}
			pr("QM %s.0 %s\n", qid, execQuery(ix, q))
			if !morph(q.Expr, e2) {
				q.Expr = e2
			}
			q.GroupBy = gb2
			pr("QM %s.1 %s\n", qid, execQuery(ix, q))
			q2 := *q
			q2.GroupBy = nil
			pr("QM %s.2 %s\n", qid, execQuery(ix, &q2))
			q.GroupBy = gb1
			pr("QM %s.3 %s\n", qid, execQuery(ix, q))
		case "QVAL":
			// one *updog.Query value executed on several indexes in sequence (C08)
			qid := t.next()
			k := t.int()
			var dss []string
			for j := 0; j < k; j++ {
				dss = append(dss, t.next())
			}
			writer, mode := t.next(), t.next()
			e := t.expr()
			if t.next() != "GB" {
				fatal("expected GB")
			}
			m := t.int()
			var gb []string
			for j := 0; j < m; j++ {
				gb = append(gb, t.str())
			}
			q := &updog.Query{Expr: e, GroupBy: gb}
			exprBefore := e.String()
			gbBefore := append([]string(nil), gb...)
			type kept struct {
				r *updog.Result
				s string
			}
			var keep []kept // results stay with the caller: a later execution must not change them
			for j, ds := range dss {
				ix, oc := s.index(ds, writer, mode)
				if ix == nil {
					pr("QV %s.%d %s\n", qid, j, oc)
					continue
				}
				var r *updog.Result
				var err error
				_, ok := guard(func() { r, err = ix.Execute(q) })
				out := "PANIC"
				if ok && err != nil {
					out = "ERR"
				} else if ok {
					out = fmtResult(r)
					keep = append(keep, kept{r, out})
				}
				pr("QV %s.%d %s\n", qid, j, out)
			}
			resultChanged := -1
			for j, k := range keep {
				if now := fmtResult(k.r); now != k.s && resultChanged < 0 {
					resultChanged = j
				}
			}
			if resultChanged >= 0 {
				pr("QVF %s EARLIER-RESULT-%d-CHANGED-BY-A-LATER-EXECUTION\n", qid, resultChanged)
				continue
			}
			same := q.Expr == e && q.Expr.String() == exprBefore && len(q.GroupBy) == len(gbBefore)
			if same {
				for j := range gbBefore {
					if q.GroupBy[j] != gbBefore[j] {
						same = false
					}
				}
			}
			if same {
				pr("QVF %s SAME\n", qid)
			} else {
				pr("QVF %s CHANGED\n", qid)
			}
		case "SCHEMA":
			qid, ds, writer := t.next(), t.next(), t.next()
			ix, oc := s.index(ds, writer, "ondemand")
			if ix == nil {
				pr("SCHEMA %s %s\n", qid, oc)
				continue
			}
			var sch *updog.Schema
			if _, ok := guard(func() { sch = ix.GetSchema() }); !ok {
				pr("SCHEMA %s PANIC\n", qid)
				continue
			}
			first := fmtSchema(sch)
			// what GetSchema returns belongs to the caller: scribbling over it must not change
			// what the index reports next
			for i := range sch.Columns {
				sch.Columns[i].Name = "scribbled"
				for j := range sch.Columns[i].Values {
					sch.Columns[i].Values[j].Value = "scribbled"
				}
				if len(sch.Columns[i].Values) > 0 {
					sch.Columns[i].Values = sch.Columns[i].Values[:len(sch.Columns[i].Values)-1]
				}
			}
			if len(sch.Columns) > 0 {
				sch.Columns = sch.Columns[1:]
			}
			var sch2 *updog.Schema
			if _, ok := guard(func() { sch2 = ix.GetSchema() }); !ok {
				pr("SCHEMA %s PANIC\n", qid)
				continue
			}
			if second := fmtSchema(sch2); second != first {
				pr("SCHEMA %s CHANGED-AFTER-THE-CALLER-MODIFIED-THE-RETURNED-VALUE %s\n", qid, second)
				continue
			}
			pr("SCHEMA %s %s\n", qid, first)
		case "KEYFEED":
			s.keyFeed(t.next())
		case "RAWKEYS":
			qid, ds, writer := t.next(), t.next(), t.next()
			s.rawKeys(qid, ds, writer)
		case "CURSOR":
			qid := t.next()
			n := t.int()
			pairs := make([][2]uint64, n)
			for i := range pairs {
				pairs[i][0] = t.u64()
				pairs[i][1] = t.u64()
			}
			s.cursorOrder(qid, pairs)
		case "IDS":
			qid, ds, writer := t.next(), t.next(), t.next()
			b := s.build(ds, writer)
			pr("IDS %s %d", qid, len(b.ids))
			for _, id := range b.ids {
				pr(" %d", id)
			}
			pr("\n")
		case "REOPEN":
			ds, writer, mode := t.next(), t.next(), t.next()
			key := ds + "/" + writer + "/" + mode
			if ix, ok := s.open[key]; ok {
				ix.Close()
				delete(s.open, key)
			}
		default:
			fatal("dp: bad line %q", lines[i])
		}
	}
}

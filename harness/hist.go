package main

import (
	"bytes"
	"os"
	"sync"

	"github.com/RoaringBitmap/roaring"
	"github.com/akrennmair/updog"
)

// recCache wraps a Cache (or nothing) and remembers the serialised contents of every bitmap
// it sees, so that an in-place mutation of a cached, preloaded or returned bitmap is noticed.
type recCache struct {
	mu      sync.Mutex // protects the wrapper's own bookkeeping only, never held across inner calls
	inner   updog.Cache
	seen    map[*roaring.Bitmap][]byte
	mutated bool
	gets    int
	hits    int
	puts    int
	keys    []uint64 // every key passed to Put, in order
}

func newRecCache(inner updog.Cache) *recCache {
	return &recCache{inner: inner, seen: map[*roaring.Bitmap][]byte{}}
}

func (c *recCache) look(bm *roaring.Bitmap) {
	if bm == nil {
		return
	}
	b, err := bm.ToBytes()
	if err != nil {
		return
	}
	c.mu.Lock()
	defer c.mu.Unlock()
	if old, ok := c.seen[bm]; ok {
		if !bytes.Equal(old, b) {
			c.mutated = true
		}
		return
	}
	c.seen[bm] = b
}

func (c *recCache) recheck() {
	for bm, old := range c.seen {
		b, err := bm.ToBytes()
		if err != nil || !bytes.Equal(old, b) {
			c.mutated = true
		}
	}
}

func (c *recCache) Get(key uint64) (*roaring.Bitmap, bool) {
	c.mu.Lock()
	c.gets++
	c.mu.Unlock()
	if c.inner == nil {
		return nil, false
	}
	bm, ok := c.inner.Get(key)
	if ok {
		c.mu.Lock()
		c.hits++
		c.mu.Unlock()
		c.look(bm)
	}
	return bm, ok
}

func (c *recCache) Put(key uint64, bm *roaring.Bitmap) {
	c.mu.Lock()
	c.puts++
	c.keys = append(c.keys, key)
	c.mu.Unlock()
	c.look(bm)
	if c.inner != nil {
		c.inner.Put(key, bm)
	}
}

// history is one open handle with a cache configuration on which a sequence of queries runs.
type history struct {
	id     string
	ix     *updog.Index // nil: could not be opened
	oc     string
	fresh  *updog.Index // uncached, on-demand reference handle on its own copy
	rec    *recCache
	files  []string
	n      int
	ds     string
	writer string
}

// startHistory: cap -2 = no WithCache option at all, -1 = a cache that never stores,
// >= 0 = LRUCache with that many bytes.
func (s *dpState) startHistory(id, ds, writer, mode string, cap int64) *history {
	h := &history{id: id, ds: ds, writer: writer}
	b := s.build(ds, writer)
	if b.outcome != "OK" {
		h.oc = b.outcome
		return h
	}
	s.nfile++
	f1 := b.file + ".h" + itoa(s.nfile)
	f2 := f1 + "f"
	copyFile(b.file, f1)
	copyFile(b.file, f2)
	h.files = []string{f1, f2}
	opts := openOpts(mode)
	if cap >= -1 {
		var inner updog.Cache
		if cap >= 0 {
			inner = updog.NewLRUCache(uint64(cap))
		}
		h.rec = newRecCache(inner)
		opts = append(opts, updog.WithCache(h.rec))
	}
	var err error
	if _, ok := guard(func() { h.ix, err = updog.OpenIndex(f1, opts...) }); !ok {
		h.oc = "PANIC"
		h.ix = nil
		return h
	}
	if err != nil {
		h.oc = "ERR"
		h.ix = nil
		return h
	}
	if _, ok := guard(func() { h.fresh, err = updog.OpenIndex(f2) }); !ok || err != nil {
		h.fresh = nil
	}
	h.oc = "OK"
	return h
}

func itoa(i int) string {
	return string(appendInt(nil, i))
}

func appendInt(b []byte, i int) []byte {
	if i >= 10 {
		b = appendInt(b, i/10)
	}
	return append(b, byte('0'+i%10))
}

// finish prints the mutation verdict and the post-history probe of every (column,value).
func (s *dpState) finishHistory(h *history) {
	if h == nil {
		return
	}
	if h.ix != nil {
		if h.rec != nil {
			h.rec.recheck()
			if h.rec.mutated {
				pr("HMUT %s MUTATED\n", h.id)
			} else {
				pr("HMUT %s OK %d %d %d\n", h.id, h.rec.gets, h.rec.hits, h.rec.puts)
			}
		} else {
			pr("HMUT %s OK 0 0 0\n", h.id)
		}
		// every stored value is still what the file says
		verdict := "OK"
		if d, ok := s.datasets[h.ds]; ok && h.fresh != nil {
			seen := map[[2]string]bool{}
			for _, r := range d.rows {
				for c, v := range r {
					k := [2]string{c, v}
					if seen[k] || len(seen) > 3000 {
						continue
					}
					seen[k] = true
					q1 := &updog.Query{Expr: &updog.ExprEqual{Column: c, Value: v}}
					q2 := &updog.Query{Expr: &updog.ExprEqual{Column: c, Value: v}}
					if execQuery(h.ix, q1) != execQuery(h.fresh, q2) {
						verdict = "DIFF " + fmtStr(c) + " " + fmtStr(v)
					}
				}
			}
		}
		pr("HPOST %s %s\n", h.id, verdict)
		h.ix.Close()
	}
	if h.fresh != nil {
		h.fresh.Close()
	}
	for _, f := range h.files {
		os.Remove(f)
	}
}

// morph turns the expression object dst into the expression src IN PLACE wherever the node
// kinds agree (leaf fields overwritten, operand slices overwritten / extended / truncated), so
// that a query object is reused and modified between two executions. false: kinds differ.
func morph(dst, src updog.Expression) bool {
	switch d := dst.(type) {
	case *updog.ExprEqual:
		s, ok := src.(*updog.ExprEqual)
		if !ok {
			return false
		}
		d.Column, d.Value = s.Column, s.Value
		return true
	case *updog.ExprNot:
		s, ok := src.(*updog.ExprNot)
		if !ok {
			return false
		}
		if !morph(d.Expr, s.Expr) {
			d.Expr = s.Expr
		}
		return true
	case *updog.ExprAnd:
		s, ok := src.(*updog.ExprAnd)
		if !ok {
			return false
		}
		d.Exprs = morphList(d.Exprs, s.Exprs)
		return true
	case *updog.ExprOr:
		s, ok := src.(*updog.ExprOr)
		if !ok {
			return false
		}
		d.Exprs = morphList(d.Exprs, s.Exprs)
		return true
	}
	return false
}

func morphList(dst, src []updog.Expression) []updog.Expression {
	for i := range src {
		if i < len(dst) {
			if !morph(dst[i], src[i]) {
				dst[i] = src[i]
			}
		} else {
			dst = append(dst, src[i])
		}
	}
	return dst[:len(src)]
}

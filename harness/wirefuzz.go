package main

import (
	"fmt"
	"math/rand"
	"os"
	"strings"

	"github.com/akrennmair/updog"
	proto "github.com/akrennmair/updog/proto/updog/v1"
	gproto "google.golang.org/protobuf/proto"
)

func init() { commands["wirefuzz"] = wirefuzzCmd }

func randWireExpr(rng *rand.Rand, depth int) *proto.Query_Expression {
	cols := []string{"a", "b", "c", "nosuch", ""}
	vals := []string{"0", "1", "2", "x", "y", "é", "", "v3"}
	if depth <= 0 || rng.Intn(3) == 0 {
		switch rng.Intn(8) {
		case 0:
			return &proto.Query_Expression{}
		case 1:
			return nil
		}
		return &proto.Query_Expression{Value: &proto.Query_Expression_Eq{Eq: &proto.Query_Expression_Equal{
			Column: cols[rng.Intn(len(cols))], Value: vals[rng.Intn(len(vals))], Placeholder: int32(rng.Intn(4) - 1)}}}
	}
	switch rng.Intn(3) {
	case 0:
		return &proto.Query_Expression{Value: &proto.Query_Expression_Not_{Not: &proto.Query_Expression_Not{Expr: randWireExpr(rng, depth-1)}}}
	case 1:
		e := &proto.Query_Expression_And{}
		for i := rng.Intn(4); i > 0; i-- {
			if x := randWireExpr(rng, depth-1); x != nil {
				e.Exprs = append(e.Exprs, x)
			}
		}
		return &proto.Query_Expression{Value: &proto.Query_Expression_And_{And: e}}
	}
	e := &proto.Query_Expression_Or{}
	for i := rng.Intn(4); i > 0; i-- {
		if x := randWireExpr(rng, depth-1); x != nil {
			e.Exprs = append(e.Exprs, x)
		}
	}
	return &proto.Query_Expression{Value: &proto.Query_Expression_Or_{Or: e}}
}

func fmtWireExpr(sb *strings.Builder, e *proto.Query_Expression) {
	switch v := e.GetValue().(type) {
	case *proto.Query_Expression_Eq:
		fmt.Fprintf(sb, "E %s %s %d", fmtStr(v.Eq.GetColumn()), fmtStr(v.Eq.GetValue()), v.Eq.GetPlaceholder())
	case *proto.Query_Expression_Not_:
		if v.Not.GetExpr() == nil {
			sb.WriteString("N0")
		} else {
			sb.WriteString("N ")
			fmtWireExpr(sb, v.Not.GetExpr())
		}
	case *proto.Query_Expression_And_:
		fmt.Fprintf(sb, "A %d", len(v.And.GetExprs()))
		for _, x := range v.And.GetExprs() {
			sb.WriteString(" ")
			fmtWireExpr(sb, x)
		}
	case *proto.Query_Expression_Or_:
		fmt.Fprintf(sb, "O %d", len(v.Or.GetExprs()))
		for _, x := range v.Or.GetExprs() {
			sb.WriteString(" ")
			fmtWireExpr(sb, x)
		}
	default:
		sb.WriteString("U")
	}
}

// wirefuzz <n> <seed> <index file>: random requests, marshalled, byte-mutated, and decoded again
// with the real proto.Unmarshal; every message that decodes is answered in-process and printed
// in the case-file syntax so that the model can answer it too.
func wirefuzzCmd(args []string) {
	n, seed, idxFile := atoi(args[0]), atoi(args[1]), args[2]
	rng := rand.New(rand.NewSource(int64(seed)))
	cp := idxFile + ".fuzzcopy"
	copyFile(idxFile, cp)
	defer os.Remove(cp)
	ix, err := updog.OpenIndex(cp, updog.WithCache(updog.NewLRUCache(1<<20)))
	if err != nil {
		fatal("open index: %v", err)
	}
	defer ix.Close()
	made, tried := 0, 0
	for made < n && tried < n*50 {
		tried++
		req := &proto.QueryRequest{}
		for k := rng.Intn(4); k >= 0; k-- {
			q := &proto.Query{Id: int32(rng.Intn(5) - 1), Expr: randWireExpr(rng, rng.Intn(5))}
			for g := rng.Intn(3); g > 0; g-- {
				q.GroupBy = append(q.GroupBy, []string{"a", "b", "c", "nosuch"}[rng.Intn(4)])
			}
			req.Queries = append(req.Queries, q)
		}
		b, err := gproto.Marshal(req)
		if err != nil {
			continue
		}
		// byte-level mutations: what arrives need not be what a well-behaved client sends
		for m := rng.Intn(4); m > 0 && len(b) > 0; m-- {
			i := rng.Intn(len(b))
			switch rng.Intn(4) {
			case 0:
				b[i] ^= byte(1 << uint(rng.Intn(8)))
			case 1:
				b = append(b[:i], b[i+1:]...)
			case 2:
				b = append(b[:i], append([]byte{byte(rng.Intn(256))}, b[i:]...)...)
			case 3:
				b = b[:i]
			}
		}
		dec := &proto.QueryRequest{}
		if err := gproto.Unmarshal(b, dec); err != nil {
			continue
		}
		made++
		rid := fmt.Sprintf("f%d", made)
		pr("REQ %s %d\n", rid, len(dec.GetQueries()))
		for _, q := range dec.GetQueries() {
			var sb strings.Builder
			fmt.Fprintf(&sb, "WQ %d ", q.GetId())
			if q.GetExpr() == nil {
				sb.WriteString("NONE")
			} else {
				sb.WriteString("X ")
				fmtWireExpr(&sb, q.GetExpr())
			}
			fmt.Fprintf(&sb, " GB %d", len(q.GetGroupBy()))
			for _, c := range q.GetGroupBy() {
				sb.WriteString(" " + fmtStr(c))
			}
			pr("%s\n", sb.String())
		}
		pr("RESP %s %s\n", rid, serveInProcess(ix, dec))
	}
}
